#!/bin/sh
# Compile every harness natively (go vet off) through the overlay, to catch type errors quickly.
export GOFLAGS=-mod=mod GOPROXY=off GOSUMDB=off GOTOOLCHAIN=local
mkdir -p /verif/.work
python3 - <<'PY'
import os, json
rep = {}
for root, _, files in os.walk('/verif/harness'):
    for f in files:
        if f.endswith('.go'):
            p = os.path.join(root, f)
            rep[os.path.join('/repo', os.path.relpath(p, '/verif/harness'))] = p
json.dump({"Replace": rep}, open('/verif/.work/all_overlay.json', 'w'))
PY
cd /repo && go build -tags=verif -overlay /verif/.work/all_overlay.json ./homescript/... 
