#!/bin/sh
# usage: try_seed.sh <patch.diff> <prop> [tier] [more props...]  — applies a seeded change to /repo, runs the checks, undoes it
P=$1; shift
TIER=quick
cd /repo || exit 2
git status --short | grep -q . && { echo "repo not clean"; exit 2; }
git apply "$P" || { echo "patch does not apply"; exit 2; }
export GOFLAGS=-mod=mod GOPROXY=off GOSUMDB=off GOTOOLCHAIN=local
go build ./... || { git checkout -- .; echo "does not build"; exit 2; }
for prop in "$@"; do
  case $prop in quick|thorough) TIER=$prop; continue;; esac
  echo "== $prop ($TIER)"
  /verif/bin/vcheck run -p $prop -tier $TIER ${ONLY:+-only $ONLY} 2>&1 | grep -v "^KNOWN-FINDING" | cut -c1-220 | tail -4
done
git checkout -- .
git status --short
