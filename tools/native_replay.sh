#!/bin/sh
# usage: native_replay.sh <pkg rel dir> <Harness> <replay.json>   (prints harness debug output)
export GOFLAGS=-mod=mod GOPROXY=off GOSUMDB=off GOTOOLCHAIN=local
PKG=$1; H=$2; R=$3
mkdir -p /verif/.work
python3 - "$PKG" "$H" <<'PY'
import os, json, sys
pkg, h = sys.argv[1], sys.argv[2]
rep = {}
pkgname = None
for root, _, files in os.walk('/verif/harness'):
    for f in files:
        if f.endswith('.go'):
            p = os.path.join(root, f)
            rel = os.path.relpath(p, '/verif/harness')
            rep[os.path.join('/repo', rel)] = p
            if os.path.dirname(rel) == pkg and pkgname is None:
                for line in open(p):
                    if line.startswith('package '):
                        pkgname = line.split()[1]; break
imp = '' if pkg == 'homescript/errors' else 'verrors "github.com/smarthome-go/homescript/v3/homescript/errors"'
call = ('verrors.' if imp else '') + 'VerifReplayMain(%s)' % h
src = 'package %s\nimport (\n "testing"\n %s\n)\nfunc TestVerifReplayOne(t *testing.T) { %s }\n' % (pkgname, imp, call)
open('/verif/.work/one_test.go', 'w').write(src)
rep[os.path.join('/repo', pkg, 'zz_verif_one_test.go')] = '/verif/.work/one_test.go'
json.dump({"Replace": rep}, open('/verif/.work/one_overlay.json', 'w'))
PY
cd /repo && VERIF_DEBUG=1 VERIF_REPLAY=$R go test -count=1 -vet=off -tags=verif -overlay /verif/.work/one_overlay.json -run '^TestVerifReplayOne$' -v ./$PKG 2>&1 | head -${4:-150}
