#!/bin/sh
# usage: regress_seeds.sh [ids...]  -- applies every seeded change to a scratch worktree of /repo HEAD and runs the quick
# check of its property there (VERIF_REPO / VERIF_OUT), so that /repo and /verif/evidence are left alone.
# Prints one line per seed: CAUGHT / MISSED / INAPPLICABLE.
export GOFLAGS=-mod=mod GOPROXY=off GOSUMDB=off GOTOOLCHAIN=local
R=/tmp/regress; rm -rf $R; mkdir -p $R/out $R/home
# the machinery is snapshotted too (binary, harness sources, known findings), so that work on /verif can go on meanwhile
cp /verif/bin/vcheck $R/vcheck; cp -r /verif/harness $R/harness; cp /verif/known_findings.json $R/home/
git -C /repo worktree add --detach $R/repo HEAD >/dev/null 2>&1 || { echo "cannot create worktree"; exit 2; }
IDS=${@:-$(ls /verif/seeded)}
for id in $IDS; do
  prop=$(echo $id | cut -c1-3)
  ( cd $R/repo && git checkout -q -- . && git apply /verif/seeded/$id/patch.diff ) 2>/dev/null || { echo "$id INAPPLICABLE"; continue; }
  out=$(VERIF_REPO=$R/repo VERIF_OUT=$R/out VERIF_HARNESS=$R/harness VERIF_HOME=$R/home $R/vcheck run -p $prop -tier quick 2>&1)
  if echo "$out" | grep -q "^VIOLATION"; then echo "$id CAUGHT"; else echo "$id MISSED $(echo "$out" | grep -E '^(OK|CHECK)' | head -1 | cut -c1-120)"; fi
done
git -C /repo worktree remove --force $R/repo >/dev/null 2>&1; rm -rf $R
