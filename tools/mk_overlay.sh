#!/bin/sh
# usage: mk_overlay.sh <out.json> [extra real=virtual ...]  -- overlay of all harness sources (for ad-hoc native probes)
python3 - "$@" <<'PY'
import json,os,sys
rep={}
for root,_,files in os.walk('/verif/harness'):
    for f in files:
        if f.endswith('.go'):
            src=os.path.join(root,f); rep['/repo/'+os.path.relpath(src,'/verif/harness')]=src
for kv in sys.argv[2:]:
    real,virt=kv.split('='); rep[virt]=real
json.dump({"Replace":rep},open(sys.argv[1],'w'))
PY
