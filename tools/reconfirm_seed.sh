#!/bin/sh
# usage: reconfirm_seed.sh <Cxx>   -- re-confirms /verif/seeded/<Cxx> against /repo HEAD in a scratch worktree
ID=$1; S=/verif/seeded/$ID
export GOFLAGS=-mod=mod GOPROXY=off GOSUMDB=off GOTOOLCHAIN=local
W=/tmp/confirm/$ID; rm -rf "$W"; mkdir -p /tmp/confirm
git -C /repo worktree add --detach "$W" HEAD >/dev/null 2>&1 || { echo "cannot create worktree"; exit 2; }
cleanup() { git -C /repo worktree remove --force "$W" >/dev/null 2>&1; rm -rf "$W" /tmp/confirm/$ID.*.log; }
D=$(cat $S/demo_path.txt); cp $S/$(basename $D) $W/$D; PKG=./$(dirname $D)/
cd $W || exit 2
go test -vet=off -count=1 -run TestSeedDemo $PKG >/tmp/confirm/$ID.a.log 2>&1 || { echo "demo FAILS without the change"; tail -5 /tmp/confirm/$ID.a.log; cleanup; exit 1; }
git apply $S/patch.diff || { echo "patch does not apply"; cleanup; exit 1; }
go build ./... || { echo "does not build"; cleanup; exit 1; }
go test -vet=off -count=1 -skip TestSeedDemo ./... >/tmp/confirm/$ID.b.log 2>&1 || { echo "existing tests FAIL"; tail -5 /tmp/confirm/$ID.b.log; cleanup; exit 1; }
if go test -vet=off -count=1 -run TestSeedDemo $PKG >/tmp/confirm/$ID.c.log 2>&1; then echo "demo PASSES with the change"; cleanup; exit 1; fi
cleanup; echo "RECONFIRMED $ID at $(git -C /repo log --format=%h -1)"
