#!/bin/sh
# usage: sweep.sh [quick|thorough] [props...]  -- runs the registered checks against /repo as it is
TIER=${1:-quick}; shift
PROPS=${@:-C01 C02 C03 C04 C05 C06 C07 C08 C09 C10 C11 C12 C13 C14 C15 C16 C17 C18 C19 C20}
for p in $PROPS; do
  /verif/bin/vcheck run -p $p -tier $TIER 2>&1 | grep -E "^(OK|VIOLATION|CHECK-ERROR)" | cut -c1-160 | sort | uniq -c | sed "s/^/$p: /"
done
