#!/bin/sh
# usage: thorough_bg.sh <props...>  -- thorough tier on a scratch snapshot of /repo HEAD, results under /tmp/thor/out
export GOFLAGS=-mod=mod GOPROXY=off GOSUMDB=off GOTOOLCHAIN=local
R=/tmp/thor; rm -rf $R; mkdir -p $R/out
git -C /repo worktree add --detach $R/repo HEAD >/dev/null 2>&1 || exit 2
for p in "$@"; do
  s=$(date +%s)
  VERIF_REPO=$R/repo VERIF_OUT=$R/out /verif/bin/vcheck run -p $p -tier thorough -v 2>&1 | grep -E "^(OK|VIOLATION|CHECK-ERROR|KNOWN)|^# (Verif|violation|UNREPL)" | cut -c1-260
  echo "== $p took $(( $(date +%s) - s )) s"
done
git -C /repo worktree remove --force $R/repo >/dev/null 2>&1
