#!/bin/sh
# usage: confirm_seed.sh <Cxx> [srcdir]
# Independently confirms a seeded change produced in srcdir (default /tmp/seed/<Cxx>):
# in a fresh scratch worktree of /repo HEAD: demo passes without the patch, the tree builds and the
# existing tests pass with the patch, the demo fails with the patch. On success the artefacts are
# copied to /verif/seeded/<Cxx>/ (patch.diff, demo test, notes.txt). The scratch worktree is removed.
ID=$1; SRC=${2:-/tmp/seed/$ID}
export GOFLAGS=-mod=mod GOPROXY=off GOSUMDB=off GOTOOLCHAIN=local
W=/tmp/confirm/$ID
rm -rf "$W"; mkdir -p /tmp/confirm
git -C /repo worktree add --detach "$W" HEAD >/dev/null 2>&1 || { echo "cannot create worktree"; exit 2; }
cleanup() { git -C /repo worktree remove --force "$W" >/dev/null 2>&1; rm -rf "$W"; }
[ -s "$SRC/patch.diff" ] || { echo "no patch.diff in $SRC"; cleanup; exit 2; }
DEMOS=$(cd "$SRC" && git status --short | awk '$1=="??" && $2 ~ /_test\.go$/ {print $2}')
[ -n "$DEMOS" ] || { echo "no demo test in $SRC"; cleanup; exit 2; }
for d in $DEMOS; do mkdir -p "$W/$(dirname $d)"; cp "$SRC/$d" "$W/$d"; done
PKGS=$(for d in $DEMOS; do echo "./$(dirname $d)/"; done | sort -u | tr '\n' ' ')
cd "$W" || exit 2
RACE=""; grep -qs -- "-race" "$SRC/meta.txt" && RACE="${SEED_RACE:-}"
echo "== demo without the change ($PKGS)"
if go test $RACE -vet=off -count=1 -run 'TestSeedDemo' $PKGS >/tmp/confirm/$ID.without.log 2>&1; then echo "   passes"; else echo "   FAILS without the change"; tail -15 /tmp/confirm/$ID.without.log; cleanup; exit 1; fi
git apply "$SRC/patch.diff" || { echo "patch does not apply to HEAD"; cleanup; exit 1; }
echo "== build with the change"
go build ./... || { echo "   does not build"; cleanup; exit 1; }
echo "== existing tests with the change"
if go test -vet=off -count=1 -skip 'TestSeedDemo' ./... >/tmp/confirm/$ID.suite.log 2>&1; then echo "   pass"; else echo "   existing tests FAIL"; tail -15 /tmp/confirm/$ID.suite.log; cleanup; exit 1; fi
echo "== demo with the change"
if go test $RACE -vet=off -count=1 -run 'TestSeedDemo' $PKGS >/tmp/confirm/$ID.with.log 2>&1; then echo "   PASSES with the change (not a demonstration)"; cleanup; exit 1; else echo "   fails:"; grep -E "^\s+zz_seed|--- FAIL|panic:" /tmp/confirm/$ID.with.log | head -6 | cut -c1-200; fi
cleanup
mkdir -p /verif/seeded/$ID
cp "$SRC/patch.diff" /verif/seeded/$ID/patch.diff
for d in $DEMOS; do cp "$SRC/$d" /verif/seeded/$ID/$(basename $d); echo "$d" > /verif/seeded/$ID/demo_path.txt; done
[ -f "$SRC/meta.txt" ] && cp "$SRC/meta.txt" /verif/seeded/$ID/notes.txt
echo "CONFIRMED $ID"
