module verif/engine

go 1.23

require golang.org/x/tools v0.29.0

require (
	golang.org/x/mod v0.22.0 // indirect
	golang.org/x/sync v0.10.0 // indirect
)
require (
	github.com/agnivade/levenshtein v1.1.1
	golang.org/x/text v0.9.0
)
