package gosym

import (
	"context"
	"bufio"
	"fmt"
	"io"
	"math"
	"os/exec"
	"strconv"
	"strings"
	"sync/atomic"
	"time"
)

type SatResult int

const (
	Unsat SatResult = iota
	Sat
	Unknown
)

func (r SatResult) String() string { return [...]string{"unsat", "sat", "unknown"}[r] }

// SolverStats are shared by all sessions of a run.
type SolverStats struct {
	Queries, SatN, UnsatN, UnknownN, Errors, Restarts, Fallbacks int64
	Nanos                                             int64
}

type Solver struct {
	bin       []string
	cmd       *exec.Cmd
	in        io.WriteCloser
	lines     chan solverLine
	defined   map[int]bool
	declared  map[string]bool
	nDefs     int
	timeoutMs int
	stats     *SolverStats
	log       io.Writer // optional transcript
	dead      bool
	lastModel map[string]uint64 // model of a one-shot fallback answer
}

type solverLine struct {
	s   string
	err error
}

// solverMemMB caps the address space of every solver process (z3 -memory, ulimit -v for the others).
const solverMemMB = 3000

func NewSolver(bin []string, timeoutMs int, stats *SolverStats, log io.Writer) *Solver {
	s := &Solver{bin: bin, timeoutMs: timeoutMs, stats: stats, log: log}
	s.start()
	return s
}

func (s *Solver) start() {
	args := append([]string(nil), s.bin[1:]...)
	if strings.Contains(s.bin[0], "z3") {
		args = append(args, fmt.Sprintf("-memory:%d", solverMemMB))
	}
	s.cmd = exec.Command(s.bin[0], args...)
	in, _ := s.cmd.StdinPipe()
	out, _ := s.cmd.StdoutPipe()
	s.cmd.Stderr = nil
	if err := s.cmd.Start(); err != nil {
		panic(fmt.Sprintf("cannot start solver %v: %v", s.bin, err))
	}
	s.in = in
	rd := bufio.NewReaderSize(out, 1<<16)
	ch := make(chan solverLine, 64)
	s.lines = ch
	go func() {
		for {
			l, err := rd.ReadString('\n')
			l = strings.TrimSpace(l)
			if l != "" || err != nil {
				ch <- solverLine{l, err}
			}
			if err != nil {
				close(ch)
				return
			}
		}
	}()
	s.defined = map[int]bool{}
	s.declared = map[string]bool{}
	s.nDefs = 0
	s.dead = false
	if strings.Contains(s.bin[0], "z3") {
		s.send(fmt.Sprintf("(set-option :timeout %d)", s.incTimeoutMs()))
	}
	s.send("(set-option :produce-models true)")
}

func (s *Solver) Close() {
	if s.cmd != nil && s.cmd.Process != nil {
		s.in.Close()
		s.cmd.Process.Kill()
		s.cmd.Wait()
	}
}

func (s *Solver) restart() {
	s.Close()
	atomic.AddInt64(&s.stats.Restarts, 1)
	s.start()
}

func (s *Solver) send(line string) {
	if s.log != nil {
		io.WriteString(s.log, line+"\n")
	}
	io.WriteString(s.in, line+"\n")
}

func (s *Solver) define(t *Term) {
	if t.op == OpConst {
		return
	}
	if t.op == OpVar {
		if !s.declared[t.name] {
			s.declared[t.name] = true
			s.send(fmt.Sprintf("(declare-const %s %s)", t.name, t.sort.SMT()))
		}
		return
	}
	if s.defined[t.id] {
		return
	}
	for _, a := range t.args {
		s.define(a)
	}
	if t.op == OpUF && !s.declared["uf:"+t.name] {
		s.declared["uf:"+t.name] = true
		var as []string
		for _, a := range t.args {
			as = append(as, a.sort.SMT())
		}
		s.send(fmt.Sprintf("(declare-fun %s (%s) %s)", t.name, strings.Join(as, " "), t.sort.SMT()))
	}
	s.defined[t.id] = true
	s.nDefs++
	s.send(fmt.Sprintf("(define-fun t%d () %s %s)", t.id, t.sort.SMT(), t.body()))
}

var errSolverWatchdog = fmt.Errorf("solver watchdog")

// readLine waits for the next non-empty line; the watchdog bounds the wait in wall-clock time because
// z3's own :timeout is not checked inside every preprocessing step.
func (s *Solver) readLine() (string, error) {
	wd := time.Duration(s.incTimeoutMs()+3000) * time.Millisecond
	t := time.NewTimer(wd)
	defer t.Stop()
	select {
	case l, ok := <-s.lines:
		if !ok {
			return "", io.EOF
		}
		return l.s, l.err
	case <-t.C:
		return "", errSolverWatchdog
	}
}

func (s *Solver) incTimeoutMs() int {
	inc := s.timeoutMs
	if inc > 4000 || inc <= 0 {
		inc = 4000 // the incremental core gets a short budget; hard queries go to fresh one-shot solvers
	}
	return inc
}

// Check decides the conjunction of lits (Bool terms).
func (s *Solver) Check(lits []*Term) SatResult {
	s.lastModel = nil
	var names []string
	for _, l := range lits {
		if l == TTrue {
			continue
		}
		if l == TFalse {
			return Unsat
		}
		if l.op == OpNot && l.args[0].op != OpConst {
			s.define(l.args[0])
			names = append(names, "(not "+l.args[0].ref()+")")
			continue
		}
		s.define(l)
		names = append(names, l.ref())
	}
	if len(names) == 0 {
		return Sat
	}
	if s.nDefs > 150000 {
		s.restart()
		return s.Check(lits)
	}
	t0 := time.Now()
	s.send("(check-sat-assuming (" + strings.Join(names, " ") + "))")
	line, err := s.readLine()
	atomic.AddInt64(&s.stats.Nanos, int64(time.Since(t0)))
	atomic.AddInt64(&s.stats.Queries, 1)
	if s.log != nil {
		io.WriteString(s.log, "; -> "+line+"\n")
	}
	if err == errSolverWatchdog {
		s.restart()
		line = "unknown"
	} else if err != nil {
		atomic.AddInt64(&s.stats.Errors, 1)
		s.restart()
		return Unknown
	}
	switch line {
	case "sat":
		atomic.AddInt64(&s.stats.SatN, 1)
		return Sat
	case "unsat":
		atomic.AddInt64(&s.stats.UnsatN, 1)
		return Unsat
	case "unknown":
		// The incremental core gave up: re-ask fresh, non-incremental solvers (portfolio).
		if r, ok := s.oneShot(lits); ok {
			atomic.AddInt64(&s.stats.Fallbacks, 1)
			if r == Sat {
				atomic.AddInt64(&s.stats.SatN, 1)
			} else {
				atomic.AddInt64(&s.stats.UnsatN, 1)
			}
			return r
		}
		atomic.AddInt64(&s.stats.UnknownN, 1)
		return Unknown
	}
	// (error ...) or anything else: inconclusive; restart to get a clean state.
	atomic.AddInt64(&s.stats.Errors, 1)
	s.restart()
	return Unknown
}

// oneShot decides lits with fresh solver processes on a self-contained script.
func (s *Solver) oneShot(lits []*Term) (SatResult, bool) {
	var sb strings.Builder
	seen := map[int]bool{}
	decl := map[string]bool{}
	var vars []string
	var def func(t *Term)
	def = func(t *Term) {
		if t.op == OpConst {
			return
		}
		if t.op == OpVar {
			if !decl[t.name] {
				decl[t.name] = true
				vars = append(vars, t.name)
				fmt.Fprintf(&sb, "(declare-const %s %s)\n", t.name, t.sort.SMT())
			}
			return
		}
		if seen[t.id] {
			return
		}
		seen[t.id] = true
		for _, a := range t.args {
			def(a)
		}
		if t.op == OpUF && !decl["uf:"+t.name] {
			decl["uf:"+t.name] = true
			var as []string
			for _, a := range t.args {
				as = append(as, a.sort.SMT())
			}
			fmt.Fprintf(&sb, "(declare-fun %s (%s) %s)\n", t.name, strings.Join(as, " "), t.sort.SMT())
		}
		fmt.Fprintf(&sb, "(define-fun t%d () %s %s)\n", t.id, t.sort.SMT(), t.body())
	}
	for _, l := range lits {
		def(l)
		fmt.Fprintf(&sb, "(assert %s)\n", l.ref())
	}
	sb.WriteString("(check-sat)\n")
	if len(vars) > 0 {
		sb.WriteString("(get-value (" + strings.Join(vars, " ") + "))\n")
	}
	script := sb.String()
	secs := s.timeoutMs / 1000
	if secs < 10 {
		secs = 10
	}
	lim := fmt.Sprintf("ulimit -v %d; exec \"$@\"", solverMemMB*1024)
	for _, bin := range [][]string{{"z3", fmt.Sprintf("-T:%d", secs), "-in"}, {"cvc5", "--produce-models", fmt.Sprintf("--tlimit=%d", secs*1000), "--lang=smt2", "-"}, {"z3-new", fmt.Sprintf("-T:%d", secs), "-in"}} {
		ctx, cancel := context.WithTimeout(context.Background(), time.Duration(secs+5)*time.Second)
		cmd := exec.CommandContext(ctx, "sh", append([]string{"-c", lim, "sh"}, bin...)...)
		cmd.Stdin = strings.NewReader("(set-option :produce-models true)\n" + script)
		out, _ := cmd.Output()
		cancel()
		txt := string(out)
		if s.log != nil {
			io.WriteString(s.log, "; one-shot "+bin[0]+" -> "+strings.SplitN(strings.TrimSpace(txt), "\n", 2)[0]+"\n")
		}
		first := strings.SplitN(strings.TrimSpace(txt), "\n", 2)
		switch first[0] {
		case "unsat":
			return Unsat, true
		case "sat":
			s.lastModel = map[string]uint64{}
			if len(first) > 1 {
				toks := tokenizeSexp(first[1])
				i := 0
				if len(toks) > 0 && toks[0] == "(" {
					i = 1
					for i < len(toks) && toks[i] == "(" {
						i++
						name := toks[i]
						i++
						v, ok := parseValue(toks, &i)
						if i < len(toks) && toks[i] == ")" {
							i++
						}
						if ok {
							s.lastModel[name] = v
						}
					}
				}
			}
			return Sat, true
		}
	}
	return Unknown, false
}

// Model returns the bits of each variable; must follow a Sat answer.
func (s *Solver) Model(vars []*Term) map[string]uint64 {
	if s.lastModel != nil {
		m := s.lastModel
		s.lastModel = nil
		for _, v := range vars {
			if _, ok := m[v.name]; !ok {
				m[v.name] = 0
			}
		}
		return m
	}
	m := map[string]uint64{}
	var ask []*Term
	for _, v := range vars {
		if s.declared[v.name] {
			ask = append(ask, v)
		} else {
			m[v.name] = 0
		}
	}
	if len(ask) == 0 {
		return m
	}
	var sb strings.Builder
	sb.WriteString("(get-value (")
	for _, v := range ask {
		sb.WriteString(v.name + " ")
	}
	sb.WriteString("))")
	s.send(sb.String())
	// read balanced s-expression
	depth, started := 0, false
	var buf strings.Builder
	for {
		l, err := s.readLine()
		buf.WriteString(l + " ")
		for _, c := range l {
			if c == '(' {
				depth++
				started = true
			} else if c == ')' {
				depth--
			}
		}
		if err != nil || (started && depth <= 0) {
			break
		}
	}
	txt := buf.String()
	if s.log != nil {
		io.WriteString(s.log, "; -> "+txt+"\n")
	}
	toks := tokenizeSexp(txt)
	// expected: ( ( name value ) ... )
	i := 0
	next := func() string {
		if i < len(toks) {
			i++
			return toks[i-1]
		}
		return ""
	}
	if next() != "(" {
		return m
	}
	for i < len(toks) && toks[i] == "(" {
		next()
		name := next()
		val, ok := parseValue(toks, &i)
		if next() != ")" {
			break
		}
		if ok {
			m[name] = val
		}
	}
	return m
}

func tokenizeSexp(s string) []string {
	var out []string
	cur := ""
	flush := func() {
		if cur != "" {
			out = append(out, cur)
			cur = ""
		}
	}
	for _, c := range s {
		switch c {
		case '(', ')':
			flush()
			out = append(out, string(c))
		case ' ', '\t', '\n', '\r':
			flush()
		default:
			cur += string(c)
		}
	}
	flush()
	return out
}

func parseBVLit(tok string) (uint64, uint, bool) {
	if strings.HasPrefix(tok, "#x") {
		v, err := strconv.ParseUint(tok[2:], 16, 64)
		return v, uint(4 * (len(tok) - 2)), err == nil
	}
	if strings.HasPrefix(tok, "#b") {
		v, err := strconv.ParseUint(tok[2:], 2, 64)
		return v, uint(len(tok) - 2), err == nil
	}
	return 0, 0, false
}

func parseValue(toks []string, i *int) (uint64, bool) {
	t := toks[*i]
	*i++
	switch t {
	case "true":
		return 1, true
	case "false":
		return 0, true
	case "(":
		head := toks[*i]
		*i++
		var res uint64
		ok := false
		switch head {
		case "fp":
			s, _, _ := parseBVLit(toks[*i])
			e, _, _ := parseBVLit(toks[*i+1])
			m, _, _ := parseBVLit(toks[*i+2])
			*i += 3
			res, ok = s<<63|e<<52|m, true
		case "_":
			kind := toks[*i]
			*i++
			switch kind {
			case "+zero":
				res, ok = 0, true
			case "-zero":
				res, ok = 1<<63, true
			case "+oo":
				res, ok = math.Float64bits(math.Inf(1)), true
			case "-oo":
				res, ok = math.Float64bits(math.Inf(-1)), true
			case "NaN":
				res, ok = 0x7ff8000000000001, true
			default:
				if strings.HasPrefix(kind, "bv") { // (_ bv10 32)
					v, err := strconv.ParseUint(kind[2:], 10, 64)
					res, ok = v, err == nil
				}
			}
		}
		// skip to matching paren
		depth := 1
		for *i < len(toks) && depth > 0 {
			if toks[*i] == "(" {
				depth++
			} else if toks[*i] == ")" {
				depth--
			}
			*i++
		}
		return res, ok
	}
	if v, _, ok := parseBVLit(t); ok {
		return v, true
	}
	return 0, false
}
