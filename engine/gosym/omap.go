package gosym

// Insertion-ordered map. Go leaves map iteration order unspecified; the engine
// iterates in insertion order by default and, in map-order nondeterminism
// mode, lets a recorded decision pick the order of each range.

import (
	"go/types"
)

type mentry struct {
	k, v value
	dead bool
}

type omap struct {
	keyT  types.Type
	ents  []*mentry
	idx   map[interface{}]*mentry // concrete hashable keys
	other []*mentry               // entries whose keys are not directly hashable (struct, iface, symbolic)
	n     int
	site  string // function that created the map (race monitor)
	inWrite bool
}

func newOmap(keyT types.Type) *omap {
	return &omap{keyT: keyT, idx: map[interface{}]*mentry{}}
}

func (m *omap) live() []*mentry {
	out := make([]*mentry, 0, m.n)
	for _, e := range m.ents {
		if !e.dead {
			out = append(out, e)
		}
	}
	return out
}

func (m *omap) len() int {
	if m == nil {
		return 0
	}
	return m.n
}

// find locates the entry for key k. Symbolic comparisons fork through fr.
func (m *omap) find(fr *frame, k value) *mentry {
	if m == nil {
		return nil
	}
	if fr != nil && fr.i.opts.RaceMonitor && !m.inWrite {
		fr.i.noteMapAccess(fr, m, false)
	}
	if hk, ok := hashKey(k); ok {
		if e, ok := m.idx[hk]; ok {
			return e
		}
		if len(m.other) == 0 {
			return nil
		}
		for _, e := range m.other {
			if e.dead {
				continue
			}
			if fr.branch(eqTerm(m.keyT, e.k, k)) {
				return e
			}
		}
		return nil
	}
	for _, e := range m.ents {
		if e.dead {
			continue
		}
		c := eqTerm(m.keyT, e.k, k)
		if c == TFalse {
			continue
		}
		if fr.branch(c) {
			return e
		}
	}
	return nil
}

func (m *omap) insert(fr *frame, k, v value) {
	if fr != nil && fr.i.opts.RaceMonitor {
		fr.i.noteMapAccess(fr, m, true)
		m.inWrite = true
		defer func() { m.inWrite = false }()
	}
	if e := m.find(fr, k); e != nil {
		e.v = v
		return
	}
	e := &mentry{k: k, v: v}
	m.ents = append(m.ents, e)
	m.n++
	if hk, ok := hashKey(k); ok {
		m.idx[hk] = e
	} else {
		m.other = append(m.other, e)
	}
}

func (m *omap) delete(fr *frame, k value) {
	if fr != nil && fr.i.opts.RaceMonitor {
		fr.i.noteMapAccess(fr, m, true)
		m.inWrite = true
		defer func() { m.inWrite = false }()
	}
	e := m.find(fr, k)
	if e == nil {
		return
	}
	e.dead = true
	m.n--
	if hk, ok := hashKey(e.k); ok {
		delete(m.idx, hk)
	}
	// compact occasionally
	if len(m.ents) > 32 && m.n < len(m.ents)/2 {
		m.ents = m.live()
		var o []*mentry
		for _, e := range m.other {
			if !e.dead {
				o = append(o, e)
			}
		}
		m.other = o
	}
}

type omapIter struct {
	ents []*mentry
	i    int
}

func (it *omapIter) next(fr *frame) tuple {
	for it.i < len(it.ents) {
		e := it.ents[it.i]
		it.i++
		if e.dead {
			continue // deleted during iteration
		}
		return tuple{true, e.k, e.v}
	}
	return tuple{false, nil, nil}
}

// rangeOmap snapshots the live entries; under map-order mode the order is a decision.
func rangeOmap(fr *frame, m *omap) iter {
	if m == nil {
		return &omapIter{}
	}
	if fr.i.opts.RaceMonitor {
		fr.i.noteMapAccess(fr, m, false)
	}
	ents := m.live()
	if fr.i.opts.MapOrder && len(ents) >= 2 && fr.i.mapOrderBudget > 0 && fr.i.inRepoCode(fr) {
		// choose a permutation by successive choices; permutation 0 is insertion order
		perm := make([]*mentry, 0, len(ents))
		rest := append([]*mentry(nil), ents...)
		deviated := false
		for len(rest) > 1 {
			c := fr.i.choose(len(rest), "maporder")
			if c != 0 {
				deviated = true
			}
			perm = append(perm, rest[c])
			rest = append(rest[:c], rest[c+1:]...)
		}
		perm = append(perm, rest[0])
		if deviated {
			fr.i.mapOrderBudget--
		}
		ents = perm
	}
	return &omapIter{ents: ents}
}
