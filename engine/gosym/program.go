package gosym

import (
	"fmt"
	"go/types"
	"os"
	"path/filepath"
	"strings"

	"golang.org/x/tools/go/packages"
	"golang.org/x/tools/go/ssa"
	"golang.org/x/tools/go/ssa/ssautil"
)

// Program is the SSA form of /repo's current working tree plus harness overlays.
type Program struct {
	Prog      *ssa.Program
	Pkgs      []*packages.Package
	repoPkgs  map[*ssa.Package]bool
	repoPaths map[string]bool
	repoList  []*ssa.Package
	pkgByPath map[string]*ssa.Package
	Module    string
	LoadS     float64
	funcs     map[*ssa.Function]bool
}

var runtimeErrorT types.Type = types.Typ[types.String]

// Load type-checks and SSA-builds the given patterns in dir. overlayDir maps
// files under it onto dir: overlayDir/<rel> becomes dir/<rel>.
func Load(dir string, overlayDirs []string, patterns []string) (*Program, error) {
	overlay := map[string][]byte{}
	for _, od := range overlayDirs {
		err := filepath.Walk(od, func(p string, info os.FileInfo, err error) error {
			if err != nil || info.IsDir() || !strings.HasSuffix(p, ".go") {
				return err
			}
			rel, _ := filepath.Rel(od, p)
			b, err := os.ReadFile(p)
			if err != nil {
				return err
			}
			overlay[filepath.Join(dir, rel)] = b
			return nil
		})
		if err != nil {
			return nil, err
		}
	}
	cfg := &packages.Config{
		Mode:    packages.LoadAllSyntax | packages.NeedModule,
		Dir:     dir,
		Overlay: overlay,
		Env:     append(os.Environ(), "GOFLAGS=-mod=mod", "GOPROXY=off", "GOSUMDB=off", "GOTOOLCHAIN=local"),
		Tests:   false,
		BuildFlags: []string{"-tags=verif"},
	}
	pkgs, err := packages.Load(cfg, patterns...)
	if err != nil {
		return nil, err
	}
	var errs []string
	packages.Visit(pkgs, nil, func(p *packages.Package) {
		for _, e := range p.Errors {
			errs = append(errs, e.Error())
		}
	})
	if len(errs) > 0 {
		return nil, fmt.Errorf("load errors:\n%s", strings.Join(errs, "\n"))
	}
	prog, spkgs := ssautil.AllPackages(pkgs, ssa.InstantiateGenerics)
	prog.Build()
	P := &Program{Prog: prog, Pkgs: pkgs, repoPkgs: map[*ssa.Package]bool{}, repoPaths: map[string]bool{}, pkgByPath: map[string]*ssa.Package{}}
	for i, p := range pkgs {
		if p.Module != nil && P.Module == "" {
			P.Module = p.Module.Path
		}
		_ = i
	}
	_ = spkgs
	for _, sp := range prog.AllPackages() {
		path := sp.Pkg.Path()
		P.pkgByPath[path] = sp
		if P.Module != "" && (path == P.Module || strings.HasPrefix(path, P.Module+"/")) {
			P.repoPkgs[sp] = true
			P.repoPaths[path] = true
			P.repoList = append(P.repoList, sp)
		}
	}
	if rt := prog.ImportedPackage("runtime"); rt != nil {
		if t := rt.Type("errorString"); t != nil {
			runtimeErrorT = t.Object().Type()
		}
	}
	return P, nil
}

// Externals lists functions and globals outside the repo packages that repo
// code references statically and for which no model is registered.
func (P *Program) Externals() (funcs map[string][]string, globals map[string][]string) {
	funcs, globals = map[string][]string{}, map[string][]string{}
	for fn := range ssautil.AllFunctions(P.Prog) {
		if fn.Pkg == nil || !P.repoPkgs[fn.Pkg] {
			continue
		}
		for _, b := range fn.Blocks {
			for _, in := range b.Instrs {
				var ops []*ssa.Value
				for _, op := range in.Operands(ops) {
					if op == nil || *op == nil {
						continue
					}
					switch v := (*op).(type) {
					case *ssa.Function:
						if v.Pkg != nil && !P.repoPkgs[v.Pkg] {
							name := v.String()
							if intrinsics[name] == nil && !interpretOK[name] {
								funcs[name] = append(funcs[name], fn.String())
							}
						}
					case *ssa.Global:
						if v.Pkg != nil && !P.repoPkgs[v.Pkg] {
							_, ok2 := externalGlobalFns[v.String()]
							if _, ok := externalGlobals[v.String()]; !ok && !ok2 {
								globals[v.String()] = append(globals[v.String()], fn.String())
							}
						}
					}
				}
				if c, ok := in.(ssa.CallInstruction); ok {
					cc := c.Common()
					if cc.IsInvoke() && cc.Method.Pkg() != nil && !P.repoPaths[cc.Method.Pkg().Path()] {
						name := "invoke " + cc.Method.FullName()
						funcs[name] = append(funcs[name], fn.String())
					}
				}
			}
		}
	}
	return
}

func (P *Program) allFuncs() map[*ssa.Function]bool {
	if P.funcs == nil {
		P.funcs = ssautil.AllFunctions(P.Prog)
	}
	return P.funcs
}
