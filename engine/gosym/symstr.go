package gosym

// Strings with symbolic content: a list of pieces. A string with no symbolic
// piece is always represented as a plain Go string.

import (
	"fmt"
	"go/types"
	"strconv"
	"strings"
	"unicode/utf8"
)

type pkind uint8

const (
	pkBytes  pkind = iota // concrete bytes s
	pkRune                // UTF-8 encoding (n bytes) of rune term t (BV32, already valid for class n)
	pkByte                // one byte, term t (BV8)
	pkItoa                // decimal rendering of signed BV64 term t
	pkUtoa                // decimal rendering of unsigned BV64 term t
	pkFtoa                // %v rendering of FP64 term t
	pkOpaque              // unknown text identified by s
	pkSplice              // transient: a nested piece list to be spliced in (never stored)
)

type spiece struct {
	k   pkind
	s   string
	t   *Term
	n   int
	sub []spiece
}

type symstr struct{ p []spiece }

func (p spiece) knownLen() (int, bool) {
	switch p.k {
	case pkBytes:
		return len(p.s), true
	case pkRune:
		return p.n, true
	case pkByte:
		return 1, true
	}
	return 0, false
}

func (s symstr) String() string {
	var sb strings.Builder
	for _, p := range s.p {
		switch p.k {
		case pkBytes:
			sb.WriteString(strconv.Quote(p.s))
		case pkRune:
			fmt.Fprintf(&sb, "‹rune%d %s›", p.n, p.t)
		case pkByte:
			fmt.Fprintf(&sb, "‹byte %s›", p.t)
		case pkItoa:
			fmt.Fprintf(&sb, "‹itoa %s›", p.t)
		case pkUtoa:
			fmt.Fprintf(&sb, "‹utoa %s›", p.t)
		case pkFtoa:
			fmt.Fprintf(&sb, "‹ftoa %s›", p.t)
		case pkOpaque:
			fmt.Fprintf(&sb, "‹opaque %s›", p.s)
		}
	}
	return sb.String()
}

// plain renders the string with `?` standing for each symbolic piece (messages, tags).
func (s symstr) plain() string {
	var sb strings.Builder
	for _, p := range s.p {
		if p.k == pkBytes {
			sb.WriteString(p.s)
		} else {
			sb.WriteString("?")
		}
	}
	return sb.String()
}

func symstrOf(v value) symstr {
	switch x := v.(type) {
	case string:
		if x == "" {
			return symstr{}
		}
		return symstr{[]spiece{{k: pkBytes, s: x}}}
	case symstr:
		return x
	}
	panic(engineErr(fmt.Sprintf("symstrOf(%T)", v)))
}

// normStr merges adjacent concrete pieces and returns a plain string when possible.
func normStr(ps []spiece) value {
	var out []spiece
	flat := make([]spiece, 0, len(ps))
	for _, p := range ps {
		if p.k == pkSplice {
			flat = append(flat, p.sub...)
		} else {
			flat = append(flat, p)
		}
	}
	ps = flat
	for _, p := range ps {
		if p.k == pkBytes {
			if p.s == "" {
				continue
			}
			if n := len(out); n > 0 && out[n-1].k == pkBytes {
				out[n-1].s += p.s
				continue
			}
		}
		if p.k == pkRune && p.t.IsConst() {
			q := spiece{k: pkBytes, s: string(rune(int32(p.t.Const())))}
			if n := len(out); n > 0 && out[n-1].k == pkBytes {
				out[n-1].s += q.s
			} else {
				out = append(out, q)
			}
			continue
		}
		if p.k == pkByte && p.t.IsConst() {
			q := spiece{k: pkBytes, s: string([]byte{byte(p.t.Const())})}
			if n := len(out); n > 0 && out[n-1].k == pkBytes {
				out[n-1].s += q.s
			} else {
				out = append(out, q)
			}
			continue
		}
		out = append(out, p)
	}
	if len(out) == 0 {
		return ""
	}
	if len(out) == 1 && out[0].k == pkBytes {
		return out[0].s
	}
	return symstr{out}
}

func strConcat(a, b value) value {
	x, y := symstrOf(a), symstrOf(b)
	ps := make([]spiece, 0, len(x.p)+len(y.p))
	ps = append(ps, x.p...)
	ps = append(ps, y.p...)
	return normStr(ps)
}

func (s symstr) length() (int, bool) {
	n := 0
	for _, p := range s.p {
		l, ok := p.knownLen()
		if !ok {
			return 0, false
		}
		n += l
	}
	return n, true
}

// runeBytes returns the UTF-8 byte terms of rune term r (BV32) of length class n.
func runeBytes(r *Term, n int) []*Term {
	c8 := func(t *Term) *Term { return Mk(OpTrunc, SBV8, t) }
	sh := func(k uint64) *Term { return Bin(OpLShr, r, Const(SBV32, k)) }
	m6 := func(t *Term) *Term { return Bin(OpBAnd, t, Const(SBV32, 0x3f)) }
	or := func(t *Term, k uint64) *Term { return c8(Bin(OpBOr, t, Const(SBV32, k))) }
	switch n {
	case 1:
		return []*Term{c8(r)}
	case 2:
		return []*Term{or(sh(6), 0xc0), or(m6(r), 0x80)}
	case 3:
		return []*Term{or(sh(12), 0xe0), or(m6(sh(6)), 0x80), or(m6(r), 0x80)}
	case 4:
		return []*Term{or(sh(18), 0xf0), or(m6(sh(12)), 0x80), or(m6(sh(6)), 0x80), or(m6(r), 0x80)}
	}
	panic(engineErr("runeBytes class"))
}

// byteTerms expands a known-length string into per-byte BV8 terms.
func (s symstr) byteTerms() []*Term {
	var out []*Term
	for _, p := range s.p {
		switch p.k {
		case pkBytes:
			for i := 0; i < len(p.s); i++ {
				out = append(out, Const(SBV8, uint64(p.s[i])))
			}
		case pkRune:
			out = append(out, runeBytes(p.t, p.n)...)
		case pkByte:
			out = append(out, p.t)
		default:
			panic(pathEnd{kind: Inconclusive, msg: "byte view of formatted symbolic number"})
		}
	}
	return out
}

// exactRune reports whether s is exactly one validly encoded rune.
func exactRune(s string) (rune, bool) {
	c, sz := utf8.DecodeRuneInString(s)
	if sz != len(s) || (c == utf8.RuneError && s != "\uFFFD") {
		return 0, false
	}
	return c, true
}

func isDigitByte(b byte) bool { return b >= '0' && b <= '9' }

// strEqTerm returns the Bool term for a == b.
func strEqTerm(a, b symstr) *Term {
	la, oka := a.length()
	lb, okb := b.length()
	if oka && okb {
		if la != lb {
			return TFalse
		}
		// fast path: aligned pieces
		r := TTrue
		i, j := 0, 0
		offA, offB := 0, 0 // offsets inside concrete pieces
		aligned := true
		for i < len(a.p) && j < len(b.p) && aligned {
			pa, pb := a.p[i], b.p[j]
			switch {
			case pa.k == pkBytes && pb.k == pkBytes:
				ra, rb := pa.s[offA:], pb.s[offB:]
				n := len(ra)
				if len(rb) < n {
					n = len(rb)
				}
				if ra[:n] != rb[:n] {
					return TFalse
				}
				offA += n
				offB += n
			case pa.k == pkRune && pb.k == pkRune && pa.n == pb.n:
				r = And(r, Eq(pa.t, pb.t))
				offA, offB = pa.n, pb.n
			case pa.k == pkRune && pb.k == pkBytes:
				rb := pb.s[offB:]
				if len(rb) < pa.n {
					aligned = false
					break
				}
				c, ok := exactRune(rb[:pa.n])
				if !ok {
					return TFalse // a valid n-byte encoding never equals these n bytes
				}
				r = And(r, Eq(pa.t, Const(SBV32, uint64(uint32(c)))))
				offA = pa.n
				offB += pa.n
			case pa.k == pkBytes && pb.k == pkRune:
				ra := pa.s[offA:]
				if len(ra) < pb.n {
					aligned = false
					break
				}
				c, ok := exactRune(ra[:pb.n])
				if !ok {
					return TFalse
				}
				r = And(r, Eq(pb.t, Const(SBV32, uint64(uint32(c)))))
				offB = pb.n
				offA += pb.n
			case pa.k == pkByte && pb.k == pkByte:
				r = And(r, Eq(pa.t, pb.t))
				offA, offB = 1, 1
			default:
				aligned = false
			}
			if !aligned {
				break
			}
			if l, _ := pa.knownLen(); offA >= l {
				i++
				offA = 0
			}
			if l, _ := pb.knownLen(); offB >= l {
				j++
				offB = 0
			}
		}
		if aligned {
			return r
		}
		ba, bb := a.byteTerms(), b.byteTerms()
		r = TTrue
		for k := range ba {
			r = And(r, Eq(ba[k], bb[k]))
		}
		return r
	}
	// Strings with formatted numbers: structural matching. Sound when numeric
	// pieces are delimited by non-numeric concrete text.
	r, ok := matchFormatted(a.p, b.p)
	if !ok {
		panic(pathEnd{kind: Inconclusive, msg: "undecidable comparison of strings with formatted symbolic numbers: " + a.String() + " vs " + b.String()})
	}
	return r
}

func numericDelimited(ps []spiece) bool {
	// bytes that may belong to the rendering of the piece kind
	inInt := func(c byte) bool { return isDigitByte(c) || c == '-' }
	inFloat := func(c byte) bool {
		return isDigitByte(c) || c == '-' || c == '+' || c == '.' || c == 'e' || c == 'E' || c == 'N' || c == 'a' || c == 'I' || c == 'n' || c == 'f'
	}
	for i, p := range ps {
		if p.k != pkItoa && p.k != pkUtoa && p.k != pkFtoa {
			if p.k == pkOpaque {
				return false
			}
			continue
		}
		in := inInt
		if p.k == pkFtoa {
			in = inFloat
		}
		if i > 0 {
			q := ps[i-1]
			if q.k != pkBytes || in(q.s[len(q.s)-1]) {
				return false
			}
		}
		if i+1 < len(ps) {
			q := ps[i+1]
			if q.k != pkBytes || in(q.s[0]) && !(p.k != pkFtoa && q.s[0] == '-') {
				return false
			}
		}
	}
	return true
}

func matchFormatted(a, b []spiece) (*Term, bool) {
	if !numericDelimited(a) || !numericDelimited(b) {
		return nil, false
	}
	r := TTrue
	i, j := 0, 0
	offA, offB := 0, 0
	for i < len(a) || j < len(b) {
		if i >= len(a) || j >= len(b) {
			// one side exhausted: the other must be empty, which normalised pieces never are
			return TFalse, true
		}
		pa, pb := a[i], b[j]
		num := func(k pkind) bool { return k == pkItoa || k == pkUtoa || k == pkFtoa }
		switch {
		case pa.k == pkBytes && pb.k == pkBytes:
			ra, rb := pa.s[offA:], pb.s[offB:]
			n := len(ra)
			if len(rb) < n {
				n = len(rb)
			}
			if ra[:n] != rb[:n] {
				return TFalse, true
			}
			offA += n
			offB += n
			if offA >= len(pa.s) {
				i++
				offA = 0
			}
			if offB >= len(pb.s) {
				j++
				offB = 0
			}
		case num(pa.k) && pa.k == pb.k:
			r = And(r, Eq(pa.t, pb.t))
			i++
			j++
		case num(pa.k) && pb.k == pkBytes:
			t, n, ok := numAgainstBytes(pa, pb.s[offB:])
			if !ok {
				return nil, false
			}
			r = And(r, t)
			i++
			offB += n
			if offB >= len(pb.s) {
				j++
				offB = 0
			}
		case pa.k == pkBytes && num(pb.k):
			t, n, ok := numAgainstBytes(pb, pa.s[offA:])
			if !ok {
				return nil, false
			}
			r = And(r, t)
			j++
			offA += n
			if offA >= len(pa.s) {
				i++
				offA = 0
			}
		case pa.k == pkRune && pb.k == pkRune && pa.n == pb.n:
			r = And(r, Eq(pa.t, pb.t))
			i++
			j++
		default:
			return nil, false
		}
	}
	return r, true
}

// numAgainstBytes compares a formatted integer piece with the maximal numeric
// run at the start of concrete text s.
func numAgainstBytes(p spiece, s string) (*Term, int, bool) {
	if p.k == pkFtoa {
		return nil, 0, false
	}
	n := 0
	if n < len(s) && s[n] == '-' {
		n++
	}
	for n < len(s) && isDigitByte(s[n]) {
		n++
	}
	run := s[:n]
	if run == "" || run == "-" {
		return TFalse, 0, true // a number never renders as empty / non-numeric text
	}
	if p.k == pkItoa {
		v, err := strconv.ParseInt(run, 10, 64)
		if err != nil || strconv.FormatInt(v, 10) != run {
			return TFalse, n, true
		}
		return Eq(p.t, Const(SBV64, uint64(v))), n, true
	}
	v, err := strconv.ParseUint(run, 10, 64)
	if err != nil || strconv.FormatUint(v, 10) != run {
		return TFalse, n, true
	}
	return Eq(p.t, Const(SBV64, v)), n, true
}

// runeToString implements string(r) for a symbolic rune term (BV32 or wider,
// already converted to BV32), forking on the UTF-8 length class.
func runeToString(fr *frame, r *Term) value {
	c := func(v int64) *Term { return Const(SBV32, uint64(uint32(v))) }
	ge := func(v int64) *Term { return Cmp(OpSle, c(v), r) }
	lt := func(v int64) *Term { return Cmp(OpSlt, r, c(v)) }
	if fr.branch(And(ge(0), lt(0x80))) {
		return symstr{[]spiece{{k: pkRune, t: r, n: 1}}}
	}
	if fr.branch(And(ge(0x80), lt(0x800))) {
		return symstr{[]spiece{{k: pkRune, t: r, n: 2}}}
	}
	if fr.branch(And(ge(0x10000), lt(0x110000))) {
		return symstr{[]spiece{{k: pkRune, t: r, n: 4}}}
	}
	// three-byte class, or invalid (negative, surrogate, too large) => U+FFFD
	if fr.branch(And(ge(0x800), lt(0x10000), Or(lt(0xd800), ge(0xe000)))) {
		return symstr{[]spiece{{k: pkRune, t: r, n: 3}}}
	}
	return "�"
}

// strToRunes implements []rune(s).
func strToRunes(s symstr) []value {
	var out []value
	for _, p := range s.p {
		switch p.k {
		case pkBytes:
			for _, r := range p.s {
				out = append(out, int32(r))
			}
		case pkRune:
			out = append(out, mkval(p.t, types.Int32))
		default:
			panic(pathEnd{kind: Inconclusive, msg: "[]rune of string with byte/formatted pieces"})
		}
	}
	return out
}

func strToBytes(s symstr) []value {
	var out []value
	if len(s.p) == 1 {
		if jb, ok := pieceBlob(s.p[0]); ok {
			return []value{jb}
		}
	}
	for _, t := range s.byteTerms() {
		out = append(out, mkval(t, types.Uint8))
	}
	return out
}

// strSlice implements s[lo:hi] with concrete bounds on a known-length string.
func strSlice(s symstr, lo, hi int) value {
	var out []spiece
	off := 0
	for _, p := range s.p {
		l, ok := p.knownLen()
		if !ok {
			panic(pathEnd{kind: Inconclusive, msg: "slice of string with formatted pieces"})
		}
		a, b := lo-off, hi-off
		if a < 0 {
			a = 0
		}
		if b > l {
			b = l
		}
		if a < b {
			switch {
			case p.k == pkBytes:
				out = append(out, spiece{k: pkBytes, s: p.s[a:b]})
			case a == 0 && b == l:
				out = append(out, p)
			default: // split a rune piece into bytes
				bs := runeBytes(p.t, p.n)
				for _, t := range bs[a:b] {
					out = append(out, spiece{k: pkByte, t: t})
				}
			}
		}
		off += l
	}
	return normStr(out)
}

type symstrIter struct {
	s    symstr
	pi   int // piece index
	off  int // byte offset within concrete piece
	byte int // global byte index
}

func (it *symstrIter) next(fr *frame) tuple {
	for it.pi < len(it.s.p) {
		p := it.s.p[it.pi]
		switch p.k {
		case pkBytes:
			if it.off >= len(p.s) {
				it.pi++
				it.off = 0
				continue
			}
			r, sz := utf8.DecodeRuneInString(p.s[it.off:])
			idx := it.byte
			it.off += sz
			it.byte += sz
			return tuple{true, idx, int32(r)}
		case pkRune:
			idx := it.byte
			it.byte += p.n
			it.pi++
			return tuple{true, idx, mkval(p.t, types.Int32)}
		default:
			panic(pathEnd{kind: Inconclusive, msg: "range over string with byte/formatted pieces"})
		}
	}
	return tuple{false, 0, int32(0)}
}
