package gosym

// Cooperative goroutines: every interpreted goroutine is a host goroutine, but
// only the holder of the baton (interpreter.cur) runs. The baton moves only at
// blocking / synchronisation operations; which runnable goroutine continues is
// the lowest-numbered one by default and a recorded decision in scheduling
// nondeterminism mode. No runnable goroutine while one is blocked = deadlock.

import (
	"fmt"
	"go/token"
	"go/types"
	"runtime/debug"
	"strings"

	"golang.org/x/tools/go/ssa"
)

type gor struct {
	vc      vclock
	id      int
	wake    chan struct{}
	waiting func() bool // nil = runnable
	done    bool
	parked  bool
	what    string
}

func (i *interpreter) spawn(fr *frame, pos token.Pos, fn value, args []value) {
	g := &gor{id: len(i.gors), wake: make(chan struct{}), parked: true}
	if i.opts.RaceMonitor && fr != nil && fr.g != nil {
		g.vc = fr.g.clock().copy() // everything the parent did so far happens before the child
		g.vc[g.id] = 1
		fr.g.tick()
	}
	i.gors = append(i.gors, g)
	i.wg.Add(1)
	go func() {
		defer i.wg.Done()
		<-g.wake
		g.parked = false
		if i.dead {
			g.done = true
			return
		}
		defer func() {
			g.done = true
			r := recover()
			if _, ok := r.(killed); ok || i.dead {
				return
			}
			if r != nil {
				if i.fatal == nil {
					i.fatal = r
					if tp, ok := r.(targetPanic); ok {
						i.fatal = targetPanic{iface{t: types.Typ[types.String], v: "panic in goroutine: " + tp.String()}}
					}
					i.fatalStk = string(debug.Stack())
				}
				select {
				case i.finished <- struct{}{}:
				default:
				}
				return
			}
			// normal exit: hand the baton on
			i.handOff(g)
		}()
		i.cur = g
		call(i, nil, pos, fn, args)
	}()
	_ = fr
}

// runnable lists goroutines (other than self) that can continue.
// runnable lists the other goroutines that can run, starting with the cyclic successor of self: the default
// policy (choice 0) is therefore round-robin, under which every goroutine makes progress between two turns of any
// other one (a lowest-id-first default starves late goroutines and leaves most of their states to deviations).
func (i *interpreter) runnable(self *gor) []*gor {
	var after, before []*gor
	for _, g := range i.gors {
		if g == self || g.done {
			continue
		}
		if g.waiting == nil || g.waiting() {
			if self != nil && g.id > self.id {
				after = append(after, g)
			} else {
				before = append(before, g)
			}
		}
	}
	return append(after, before...)
}

func (i *interpreter) pick(c []*gor) *gor {
	if len(c) == 1 || !i.opts.Sched || i.schedBudget <= 0 {
		return c[0]
	}
	k := i.choose(len(c), "sched")
	if k != 0 {
		i.schedBudget--
	}
	return c[k]
}

// handOff passes the baton from an exiting goroutine.
func (i *interpreter) handOff(g *gor) {
	c := i.runnable(g)
	if len(c) == 0 {
		// everyone else is blocked: deadlock (main is among them, or main would have ended the path)
		if i.fatal == nil {
			i.fatal = pathEnd{kind: Deadlock, msg: "all goroutines are asleep: " + i.blockedSummary()}
		}
		select {
		case i.finished <- struct{}{}:
		default:
		}
		return
	}
	next := i.pick(c)
	i.cur = next
	next.wake <- struct{}{}
}

func (i *interpreter) blockedSummary() string {
	s := ""
	for _, g := range i.gors {
		if !g.done {
			s += fmt.Sprintf("g%d:%s ", g.id, g.what)
		}
	}
	return s
}

// switchTo parks g and resumes next.
func (i *interpreter) switchTo(g, next *gor) {
	if next == g {
		return
	}
	g.parked = true
	i.cur = next
	next.wake <- struct{}{}
	<-g.wake
	g.parked = false
	if i.dead {
		panic(killed{})
	}
	i.cur = g
}

// block suspends g until pred holds.
func (i *interpreter) block(g *gor, what string, pred func() bool) {
	for !pred() {
		g.waiting = pred
		g.what = what
		c := i.runnable(g)
		if len(c) == 0 {
			panic(pathEnd{kind: Deadlock, msg: "all goroutines are asleep: " + i.blockedSummary()})
		}
		i.switchTo(g, i.pick(c))
		g.waiting = nil
	}
	g.waiting = nil
	g.what = ""
}

// yield is a scheduling point at which g stays runnable.
func (i *interpreter) yield(g *gor) {
	c := i.runnable(g)
	if len(c) == 0 {
		return
	}
	if !i.opts.Sched || i.schedBudget <= 0 {
		// default policy: let the others run (a sleeping goroutine waits for them)
		i.switchTo(g, c[0])
		return
	}
	// choice 0 is the default policy; staying on g is the last alternative
	all := append(append([]*gor{}, c...), g)
	next := i.pick(all)
	i.switchTo(g, next)
}

// ---- channels ----

type sendReq struct {
	v     value
	taken bool
}

type channel struct {
	cap      int
	buf      []value
	sendq    []*sendReq
	closed   bool
	recvWait int
	elem     types.Type
}

func newChannel(n int, elem types.Type) *channel {
	return &channel{cap: n, elem: elem}
}

func (c *channel) canRecv() bool {
	return len(c.buf) > 0 || len(c.sendq) > 0 || c.closed
}

func (c *channel) doRecv() (value, bool) {
	if len(c.buf) > 0 {
		v := c.buf[0]
		c.buf = c.buf[1:]
		if len(c.sendq) > 0 {
			s := c.sendq[0]
			c.sendq = c.sendq[1:]
			s.taken = true
			c.buf = append(c.buf, s.v)
		}
		return v, true
	}
	if len(c.sendq) > 0 {
		s := c.sendq[0]
		c.sendq = c.sendq[1:]
		s.taken = true
		return s.v, true
	}
	return zero(c.elem), false // closed
}

func chanSend(fr *frame, ch value, v value) {
	c := ch.(*channel)
	i := fr.i
	if c == nil {
		i.block(fr.g, "send on nil channel", func() bool { return false })
	}
	if c.closed {
		panic(targetPanic{iface{t: types.Typ[types.String], v: "send on closed channel"}})
	}
	v = copyVal(v)
	i.hbRelease(fr.g, c)
	if len(c.buf) < c.cap {
		c.buf = append(c.buf, v)
		return
	}
	req := &sendReq{v: v}
	c.sendq = append(c.sendq, req)
	i.block(fr.g, "chan send", func() bool { return req.taken || c.closed })
	if !req.taken && c.closed {
		panic(targetPanic{iface{t: types.Typ[types.String], v: "send on closed channel"}})
	}
}

func chanRecv(fr *frame, ch value, elem types.Type, commaOk bool) value {
	c := ch.(*channel)
	i := fr.i
	if c == nil {
		i.block(fr.g, "receive from nil channel", func() bool { return false })
	}
	if !c.canRecv() {
		c.recvWait++
		i.block(fr.g, "chan receive", c.canRecv)
		c.recvWait--
	}
	v, ok := c.doRecv()
	i.hbAcquire(fr.g, c)
	if commaOk {
		return tuple{v, ok}
	}
	return v
}

func chanClose(fr *frame, ch value) {
	c := ch.(*channel)
	if c == nil {
		panic(targetPanic{iface{t: types.Typ[types.String], v: "close of nil channel"}})
	}
	if c.closed {
		panic(targetPanic{iface{t: types.Typ[types.String], v: "close of closed channel"}})
	}
	fr.i.hbRelease(fr.g, c)
	c.closed = true
}

func selectOp(fr *frame, instr *ssa.Select) value {
	i := fr.i
	type cs struct {
		c    *channel
		send bool
		v    value
	}
	var cases []cs
	for _, st := range instr.States {
		c, _ := fr.get(st.Chan).(*channel)
		x := cs{c: c, send: st.Dir == types.SendOnly}
		if x.send {
			x.v = fr.get(st.Send)
		}
		cases = append(cases, x)
	}
	ready := func() int {
		for k, x := range cases {
			if x.c == nil {
				continue
			}
			if x.send {
				if x.c.closed || len(x.c.buf) < x.c.cap || x.c.recvWait > 0 {
					return k
				}
			} else if x.c.canRecv() {
				return k
			}
		}
		return -1
	}
	chosen := ready()
	if chosen < 0 && instr.Blocking {
		for _, x := range cases {
			if x.c != nil && !x.send {
				x.c.recvWait++
			}
		}
		i.block(fr.g, "select", func() bool { return ready() >= 0 })
		for _, x := range cases {
			if x.c != nil && !x.send {
				x.c.recvWait--
			}
		}
		chosen = ready()
	}
	r := tuple{chosen, false}
	var recvVal value
	recvOk := false
	if chosen >= 0 {
		x := cases[chosen]
		if x.send {
			if x.c.closed {
				panic(targetPanic{iface{t: types.Typ[types.String], v: "send on closed channel"}})
			}
			i.hbRelease(fr.g, x.c)
			x.c.buf = append(x.c.buf, copyVal(x.v))
		} else {
			recvVal, recvOk = x.c.doRecv()
			i.hbAcquire(fr.g, x.c)
		}
	}
	r[1] = recvOk
	for k, st := range instr.States {
		if st.Dir == types.RecvOnly {
			if k == chosen && recvOk {
				r = append(r, recvVal)
			} else {
				r = append(r, zero(st.Chan.Type().Underlying().(*types.Chan).Elem()))
			}
		}
	}
	return r
}

// ---- sync.Mutex / RWMutex / WaitGroup (state keyed by receiver address) ----

type lockState struct {
	writer  *gor
	readers map[*gor]int
}

type wgState struct{ n int }

func (i *interpreter) lockOf(p *value) *lockState {
	l := i.locks[p]
	if l == nil {
		l = &lockState{readers: map[*gor]int{}}
		i.locks[p] = l
	}
	return l
}

func totalReaders(l *lockState) int {
	n := 0
	for _, c := range l.readers {
		n += c
	}
	return n
}

func mutexLock(fr *frame, p *value, write bool) {
	l := fr.i.lockOf(p)
	g := fr.g
	// a goroutine can be descheduled right before it asks for a lock: what it read before (a counter it is about to
	// update under the lock, say) may be stale by the time it gets in
	fr.i.yield(g)
	if write {
		fr.i.block(g, "Lock", func() bool { return l.writer == nil && totalReaders(l) == 0 })
		l.writer = g
		fr.i.hbAcquire(g, p)
	} else {
		fr.i.block(g, "RLock", func() bool { return l.writer == nil })
		l.readers[g]++
		fr.i.hbAcquire(g, p)
	}
	fr.i.yield(g)
}

func mutexUnlock(fr *frame, p *value, write bool) {
	l := fr.i.lockOf(p)
	fr.i.hbRelease(fr.g, p)
	if write {
		if l.writer == nil {
			panic(targetPanic{iface{t: types.Typ[types.String], v: "fatal error: sync: unlock of unlocked mutex"}})
		}
		l.writer = nil
	} else {
		if totalReaders(l) == 0 {
			panic(targetPanic{iface{t: types.Typ[types.String], v: "fatal error: sync: RUnlock of unlocked RWMutex"}})
		}
		// Go does not track which goroutine holds a read lock
		if l.readers[fr.g] > 0 {
			l.readers[fr.g]--
		} else {
			for k, c := range l.readers {
				if c > 0 {
					l.readers[k]--
					break
				}
			}
		}
	}
	fr.i.yield(fr.g)
}

// ---- happens-before (vector clock) race monitor on Go maps ----
//
// Every interpreted goroutine carries a vector clock; spawn, channel
// send->receive, close->receive, mutex release->acquire and WaitGroup
// Done->Wait create happens-before edges. Two accesses to one Go map from
// different goroutines, at least one a write, that are not ordered by
// happens-before are a data race under some native interleaving (the
// cooperative scheduler itself never runs them simultaneously).

type vclock map[int]int

func (v vclock) copy() vclock {
	c := vclock{}
	for k, x := range v {
		c[k] = x
	}
	return c
}

func (v vclock) join(o vclock) {
	for k, x := range o {
		if x > v[k] {
			v[k] = x
		}
	}
}

func (g *gor) clock() vclock {
	if g.vc == nil {
		g.vc = vclock{g.id: 1}
	}
	return g.vc
}

func (g *gor) tick() { g.clock()[g.id]++ }

// release publishes g's clock into a synchronisation object's clock.
func (i *interpreter) hbRelease(g *gor, obj interface{}) {
	if !i.opts.RaceMonitor {
		return
	}
	if i.syncVC == nil {
		i.syncVC = map[interface{}]vclock{}
	}
	c := i.syncVC[obj]
	if c == nil {
		c = vclock{}
		i.syncVC[obj] = c
	}
	c.join(g.clock())
	g.tick()
}

// acquire joins a synchronisation object's clock into g's.
func (i *interpreter) hbAcquire(g *gor, obj interface{}) {
	if !i.opts.RaceMonitor || i.syncVC == nil {
		return
	}
	if c := i.syncVC[obj]; c != nil {
		g.clock().join(c)
	}
}

type accessState struct {
	lastWriteG   int
	lastWriteC   int
	lastWriteFn  string
	reads        map[int]int
	reported     bool
}

func (i *interpreter) noteMapAccess(fr *frame, m *omap, write bool) {
	if i.mapAcc == nil {
		i.mapAcc = map[*omap]*accessState{}
	}
	g := fr.g
	vc := g.clock()
	st := i.mapAcc[m]
	if st == nil {
		st = &accessState{lastWriteG: -1, reads: map[int]int{}}
		i.mapAcc[m] = st
	}
	race := ""
	if st.lastWriteG >= 0 && st.lastWriteG != g.id && st.lastWriteC > vc[st.lastWriteG] {
		race = fmt.Sprintf("write by g%d in %s", st.lastWriteG, st.lastWriteFn)
	}
	if write && race == "" {
		for rg, rc := range st.reads {
			if rg != g.id && rc > vc[rg] {
				race = fmt.Sprintf("read by g%d", rg)
			}
		}
	}
	if race != "" && !st.reported {
		st.reported = true
		site := m.site
		where := ""
		if fr.fn != nil {
			where = fr.fn.String()
		}
		i.tags["race-site"] = site + " accessed in " + where
		i.violation("race", "unsynchronised-shared-map", fmt.Sprintf("map created in %s: access (write=%v) by g%d in %s is not ordered after the %s", site, write, g.id, where, race), nil)
		delete(i.tags, "race-site")
	}
	if write {
		st.lastWriteG, st.lastWriteC = g.id, vc[g.id]
		if fr.fn != nil {
			st.lastWriteFn = fr.fn.String()
		}
		st.reads = map[int]int{}
	} else {
		st.reads[g.id] = vc[g.id]
	}
}

// ---- the same monitor on the VM's own bookkeeping fields ----
//
// The scalar fields of runtime.VM (core counter, core table, ...) are shared by every core goroutine and the waiting
// host goroutine. Their cells are registered when their address is taken (FieldAddr on a *runtime.VM, or on a struct
// nested in one); loads and stores through a registered cell are checked like map accesses.

func (i *interpreter) watchField(instr *ssa.FieldAddr, base *value, cell *value) {
	pt, ok := instr.X.Type().Underlying().(*types.Pointer)
	if !ok {
		return
	}
	name := ""
	if named, ok := pt.Elem().(*types.Named); ok {
		obj := named.Obj()
		if obj.Pkg() != nil && strings.HasSuffix(obj.Pkg().Path(), "/homescript/runtime") && obj.Name() == "VM" {
			name = "VM"
		}
	}
	if name == "" {
		if parent, ok := i.watched[base]; ok {
			name = parent
		}
	}
	if name == "" {
		return
	}
	if st, ok := pt.Elem().Underlying().(*types.Struct); ok && instr.Field < st.NumFields() {
		f := st.Field(instr.Field)
		// synchronisation objects and immutable configuration are not data
		if tn := f.Type().String(); strings.HasPrefix(tn, "sync.") || strings.HasPrefix(tn, "*") || strings.HasPrefix(tn, "func") {
			return
		}
		name += "." + f.Name()
	}
	if i.watched == nil {
		i.watched = map[*value]string{}
	}
	i.watched[cell] = name
}

func (i *interpreter) noteCellAccess(fr *frame, cell *value, name string, write bool) {
	if fr.g == nil {
		return
	}
	if i.cellAcc == nil {
		i.cellAcc = map[*value]*accessState{}
	}
	g := fr.g
	vc := g.clock()
	st := i.cellAcc[cell]
	if st == nil {
		st = &accessState{lastWriteG: -1, reads: map[int]int{}}
		i.cellAcc[cell] = st
	}
	race := ""
	if st.lastWriteG >= 0 && st.lastWriteG != g.id && st.lastWriteC > vc[st.lastWriteG] {
		race = fmt.Sprintf("write by g%d in %s", st.lastWriteG, st.lastWriteFn)
	}
	if write && race == "" {
		for rg, rc := range st.reads {
			if rg != g.id && rc > vc[rg] {
				race = fmt.Sprintf("read by g%d", rg)
			}
		}
	}
	if race != "" && !st.reported {
		st.reported = true
		where := ""
		if fr.fn != nil {
			where = fr.fn.String()
		}
		i.tags["race-site"] = name + " accessed in " + where
		i.violation("race", "unsynchronised-shared-field", fmt.Sprintf("field %s: access (write=%v) by g%d in %s is not ordered after the %s", name, write, g.id, where, race), nil)
		delete(i.tags, "race-site")
	}
	if write {
		st.lastWriteG, st.lastWriteC = g.id, vc[g.id]
		if fr.fn != nil {
			st.lastWriteFn = fr.fn.String()
		}
		st.reads = map[int]int{}
	} else {
		st.reads[g.id] = vc[g.id]
	}
}
