package gosym

import (
	"fmt"
	"go/constant"
	"go/token"
	"go/types"
	"math"
	"unicode/utf8"

	"golang.org/x/tools/go/ssa"
)

func constValue(c *ssa.Const) value {
	if c.Value == nil {
		return zero(c.Type())
	}
	if t, ok := c.Type().Underlying().(*types.Basic); ok {
		switch t.Kind() {
		case types.Bool, types.UntypedBool:
			return constant.BoolVal(c.Value)
		case types.Int, types.UntypedInt:
			return int(c.Int64())
		case types.Int8:
			return int8(c.Int64())
		case types.Int16:
			return int16(c.Int64())
		case types.Int32, types.UntypedRune:
			return int32(c.Int64())
		case types.Int64:
			return c.Int64()
		case types.Uint:
			return uint(c.Uint64())
		case types.Uint8:
			return uint8(c.Uint64())
		case types.Uint16:
			return uint16(c.Uint64())
		case types.Uint32:
			return uint32(c.Uint64())
		case types.Uint64:
			return c.Uint64()
		case types.Uintptr:
			return uintptr(c.Uint64())
		case types.Float32:
			return float32(c.Float64())
		case types.Float64, types.UntypedFloat:
			return c.Float64()
		case types.String, types.UntypedString:
			if c.Value.Kind() == constant.String {
				return constant.StringVal(c.Value)
			}
			return string(rune(c.Int64()))
		}
	}
	panic(engineErr(fmt.Sprintf("constValue: %s", c)))
}

func asInt64(x value) int64 {
	switch x := x.(type) {
	case int:
		return int64(x)
	case int8:
		return int64(x)
	case int16:
		return int64(x)
	case int32:
		return int64(x)
	case int64:
		return x
	case uint:
		return int64(x)
	case uint8:
		return int64(x)
	case uint16:
		return int64(x)
	case uint32:
		return int64(x)
	case uint64:
		return int64(x)
	case uintptr:
		return int64(x)
	case sym:
		panic(pathEnd{kind: Inconclusive, msg: "symbolic integer where the engine needs a concrete one: " + x.t.String()})
	}
	panic(engineErr(fmt.Sprintf("cannot convert %T to int64", x)))
}

// ---- scalar arithmetic ----

var binTable = map[token.Token][3]Op{ // signed, unsigned, float
	token.ADD: {OpAdd, OpAdd, OpFAdd},
	token.SUB: {OpSub, OpSub, OpFSub},
	token.MUL: {OpMul, OpMul, OpFMul},
	token.QUO: {OpSDiv, OpUDiv, OpFDiv},
	token.REM: {OpSRem, OpURem, 0},
	token.AND: {OpBAnd, OpBAnd, 0},
	token.OR:  {OpBOr, OpBOr, 0},
	token.XOR: {OpBXor, OpBXor, 0},
	token.LSS: {OpSlt, OpUlt, OpFLt},
	token.LEQ: {OpSle, OpUle, OpFLe},
}

func isCmp(op token.Token) bool {
	switch op {
	case token.EQL, token.NEQ, token.LSS, token.LEQ, token.GTR, token.GEQ:
		return true
	}
	return false
}

func binop(fr *frame, op token.Token, t types.Type, x, y value) value {
	// strings
	switch x.(type) {
	case string, symstr:
		return strBinop(op, x, y)
	}
	kx := goKind(x)
	if kx == types.Invalid || kx == types.String {
		// non-scalar: only equality
		switch op {
		case token.EQL:
			return mkval(eqnil(t, x, y), types.Bool)
		case token.NEQ:
			return mkval(Not(eqnil(t, x, y)), types.Bool)
		}
		panic(engineErr(fmt.Sprintf("invalid binary op: %T %s %T", x, op, y)))
	}
	_, sx := x.(sym)
	_, sy := y.(sym)
	if op == token.SHL || op == token.SHR {
		return shiftOp(fr, op, kx, x, y)
	}
	if kx == types.Bool {
		switch op {
		case token.EQL:
			return mkval(eqTerm(t, x, y), types.Bool)
		case token.NEQ:
			return mkval(Not(eqTerm(t, x, y)), types.Bool)
		}
		panic(engineErr("bool binop " + op.String()))
	}
	isF := kx == types.Float64
	if kx == types.Float32 {
		panic(pathEnd{kind: Inconclusive, msg: "float32 arithmetic not modelled"})
	}
	signed := kindSigned(kx)
	// division by zero
	if (op == token.QUO || op == token.REM) && !isF {
		if sy {
			if fr.branch(Eq(y.(sym).t, Const(kindSort(kx), 0))) {
				rtPanic("integer divide by zero")
			}
		} else if bitsOf(y) == 0 {
			rtPanic("integer divide by zero")
		}
	}
	if !sx && !sy {
		return concBin(op, kx, isF, signed, x, y)
	}
	a, b := termOf(x), termOf(y)
	sel := 0
	if isF {
		sel = 2
	} else if !signed {
		sel = 1
	}
	switch op {
	case token.EQL:
		return mkval(eqTerm(t, x, y), types.Bool)
	case token.NEQ:
		return mkval(Not(eqTerm(t, x, y)), types.Bool)
	case token.GTR:
		return mkval(Cmp(binTable[token.LSS][sel], b, a), types.Bool)
	case token.GEQ:
		return mkval(Cmp(binTable[token.LEQ][sel], b, a), types.Bool)
	case token.LSS, token.LEQ:
		return mkval(Cmp(binTable[op][sel], a, b), types.Bool)
	case token.AND_NOT:
		return mkval(Bin(OpBAnd, a, Mk(OpBNot, a.sort, b)), kx)
	}
	o, ok := binTable[op]
	if !ok || o[sel] == 0 {
		panic(engineErr(fmt.Sprintf("binop %s on kind %v", op, kx)))
	}
	return mkval(Bin(o[sel], a, b), kx)
}

func concBin(op token.Token, k types.BasicKind, isF, signed bool, x, y value) value {
	if isF {
		a, b := x.(float64), y.(float64)
		switch op {
		case token.ADD:
			return a + b
		case token.SUB:
			return a - b
		case token.MUL:
			return a * b
		case token.QUO:
			return a / b
		case token.EQL:
			return a == b
		case token.NEQ:
			return a != b
		case token.LSS:
			return a < b
		case token.LEQ:
			return a <= b
		case token.GTR:
			return a > b
		case token.GEQ:
			return a >= b
		}
		panic(engineErr("float binop " + op.String()))
	}
	sort := kindSort(k)
	a, b := bitsOf(x), bitsOf(y)
	sel := 0
	if !signed {
		sel = 1
	}
	switch op {
	case token.EQL:
		return a == b
	case token.NEQ:
		return a != b
	case token.GTR:
		v, _ := evalOp(binTable[token.LSS][sel], SBool, sort, []uint64{b, a})
		return v == 1
	case token.GEQ:
		v, _ := evalOp(binTable[token.LEQ][sel], SBool, sort, []uint64{b, a})
		return v == 1
	case token.LSS, token.LEQ:
		v, _ := evalOp(binTable[op][sel], SBool, sort, []uint64{a, b})
		return v == 1
	case token.AND_NOT:
		return fromBits(k, a&^b)
	}
	o, ok := binTable[op]
	if !ok || o[sel] == 0 {
		panic(engineErr(fmt.Sprintf("binop %s on kind %v", op, k)))
	}
	v, _ := evalOp(o[sel], sort, sort, []uint64{a, b})
	return fromBits(k, v)
}

func shiftOp(fr *frame, op token.Token, kx types.BasicKind, x, y value) value {
	ky := goKind(y)
	sortX := kindSort(kx)
	wx := uint64(sortX.Width())
	signedX := kindSigned(kx)
	if ys, ok := y.(sym); ok {
		if kindSigned(ky) {
			if fr.branch(Cmp(OpSlt, ys.t, Const(ys.t.sort, 0))) {
				rtPanic("negative shift amount")
			}
		}
	} else if kindSigned(ky) && asInt64(y) < 0 {
		rtPanic("negative shift amount")
	}
	_, sx := x.(sym)
	_, sy := y.(sym)
	if !sx && !sy {
		cnt := bitsOf(y)
		a := bitsOf(x)
		var r uint64
		switch {
		case op == token.SHL:
			if cnt < wx {
				r = a << cnt
			}
		case signedX:
			c := cnt
			if c > 63 {
				c = 63
			}
			r = uint64(sext(a, uint(wx)) >> c)
		default:
			if cnt < wx {
				r = a >> cnt
			}
		}
		return fromBits(kx, r&mask(sortX))
	}
	a, c := termOf(x), termOf(y)
	inRange := Cmp(OpUlt, c, Const(c.sort, wx))
	var cx *Term
	if c.sort.Width() > sortX.Width() {
		cx = Mk(OpTrunc, sortX, c)
	} else {
		cx = Mk(OpZExt, sortX, c)
	}
	var r *Term
	switch {
	case op == token.SHL:
		r = Ite(inRange, Bin(OpShl, a, cx), Const(sortX, 0))
	case signedX:
		r = Ite(inRange, Bin(OpAShr, a, cx), Bin(OpAShr, a, Const(sortX, wx-1)))
	default:
		r = Ite(inRange, Bin(OpLShr, a, cx), Const(sortX, 0))
	}
	return mkval(r, kx)
}

func strBinop(op token.Token, x, y value) value {
	xs, xc := x.(string)
	ys, yc := y.(string)
	if xc && yc {
		switch op {
		case token.ADD:
			return xs + ys
		case token.EQL:
			return xs == ys
		case token.NEQ:
			return xs != ys
		case token.LSS:
			return xs < ys
		case token.LEQ:
			return xs <= ys
		case token.GTR:
			return xs > ys
		case token.GEQ:
			return xs >= ys
		}
	}
	switch op {
	case token.ADD:
		return strConcat(x, y)
	case token.EQL:
		return mkval(strEqTerm(symstrOf(x), symstrOf(y)), types.Bool)
	case token.NEQ:
		return mkval(Not(strEqTerm(symstrOf(x), symstrOf(y))), types.Bool)
	}
	panic(pathEnd{kind: Inconclusive, msg: "ordering comparison of symbolic strings"})
}

// eqnil compares values of types that only support comparison with nil
// (map, func, slice), falling back to eqTerm.
func eqnil(t types.Type, x, y value) *Term {
	switch t.Underlying().(type) {
	case *types.Map, *types.Signature, *types.Slice:
		isNil := func(v value) bool {
			switch v := v.(type) {
			case *omap:
				return v == nil
			case *ssa.Function:
				return v == nil
			case *closure:
				return v == nil
			case []value:
				return v == nil
			case *ssa.Builtin:
				return false
			case nativeMethod:
				return false
			}
			panic(engineErr(fmt.Sprintf("eqnil(%s): illegal dynamic type: %T", t, v)))
		}
		return BoolT(isNil(x) == isNil(y))
	}
	return eqTerm(t, x, y)
}

func unop(fr *frame, instr *ssa.UnOp, x value) value {
	switch instr.Op {
	case token.ARROW:
		return chanRecv(fr, x, instr.X.Type().Underlying().(*types.Chan).Elem(), instr.CommaOk)
	case token.MUL:
		addr := derefCheck(x)
		if fr.i.watched != nil {
			if name, ok := fr.i.watched[addr]; ok {
				fr.i.noteCellAccess(fr, addr, name, false)
			}
		}
		return load(mustDeref(instr.X.Type()), addr)
	case token.NOT:
		if s, ok := x.(sym); ok {
			return mkval(Not(s.t), types.Bool)
		}
		return !x.(bool)
	case token.SUB:
		switch v := x.(type) {
		case float64:
			return -v
		case sym:
			if v.k == types.Float64 {
				return mkval(Mk(OpFNeg, SFP64, v.t), v.k)
			}
			return mkval(Mk(OpNeg, v.t.sort, v.t), v.k)
		}
		k := goKind(x)
		return fromBits(k, (-bitsOf(x))&mask(kindSort(k)))
	case token.XOR:
		if v, ok := x.(sym); ok {
			return mkval(Mk(OpBNot, v.t.sort, v.t), v.k)
		}
		k := goKind(x)
		return fromBits(k, (^bitsOf(x))&mask(kindSort(k)))
	}
	panic(engineErr(fmt.Sprintf("invalid unary op %s %T", instr.Op, x)))
}

// ---- conversions ----

func conv(fr *frame, tDst, tSrc types.Type, x value) value {
	ud, us := tDst.Underlying(), tSrc.Underlying()
	switch us := us.(type) {
	case *types.Slice:
		// []byte / []rune -> string
		if db, ok := ud.(*types.Basic); ok && db.Kind() == types.String {
			ek := basicKind(us.Elem())
			var ps []spiece
			for _, e := range x.([]value) {
				if jb, ok := e.(jsonBlob); ok {
					ps = append(ps, blobPiece(jb))
					continue
				}
				if s, ok := e.(sym); ok {
					if ek == types.Uint8 {
						ps = append(ps, spiece{k: pkByte, t: s.t})
					} else {
						ps = append(ps, symstrOf(runeToString(fr, s.t)).p...)
					}
					continue
				}
				if ek == types.Uint8 {
					ps = append(ps, spiece{k: pkBytes, s: string([]byte{e.(uint8)})})
				} else {
					ps = append(ps, spiece{k: pkBytes, s: string(rune(e.(int32)))})
				}
			}
			return normStr(ps)
		}
		// slice -> slice of identical underlying
		return x
	case *types.Basic:
		sk := basicKind(tSrc)
		if dsl, ok := ud.(*types.Slice); ok && sk == types.String {
			ek := basicKind(dsl.Elem())
			switch s := x.(type) {
			case string:
				var out []value
				if ek == types.Uint8 {
					out = make([]value, len(s))
					for i := 0; i < len(s); i++ {
						out[i] = s[i]
					}
				} else {
					for _, r := range s {
						out = append(out, int32(r))
					}
					if out == nil {
						out = []value{}
					}
				}
				return out
			case symstr:
				if ek == types.Uint8 {
					return strToBytes(s)
				}
				return strToRunes(s)
			}
		}
		db, ok := ud.(*types.Basic)
		if !ok {
			break
		}
		dk := basicKind(tDst)
		if dk == types.UnsafePointer || sk == types.UnsafePointer {
			break
		}
		if dk == types.String {
			if sk == types.String {
				return x
			}
			// integer -> string
			if s, ok := x.(sym); ok {
				t := s.t
				switch {
				case t.sort.Width() > 32:
					// runes outside int32 are invalid => U+FFFD; keep exact by checking range
					if fr.branch(Or(Cmp(OpSlt, t, Const(t.sort, 0)), Cmp(OpSlt, Const(t.sort, 0x10ffff), t))) {
						return "�"
					}
					t = Mk(OpTrunc, SBV32, t)
				case t.sort.Width() < 32:
					if kindSigned(sk) {
						t = Mk(OpSExt, SBV32, t)
					} else {
						t = Mk(OpZExt, SBV32, t)
					}
				default:
					if !kindSigned(sk) {
						if fr.branch(Cmp(OpUlt, Const(SBV32, 0x10ffff), t)) {
							return "�"
						}
					}
				}
				return runeToString(fr, t)
			}
			if kindSigned(sk) {
				v := asInt64(x)
				if v < math.MinInt32 || v > math.MaxInt32 {
					return "�"
				}
				return string(rune(v))
			}
			v := bitsOf(x)
			if v > utf8.MaxRune {
				return "�"
			}
			return string(rune(v))
		}
		_ = db
		return numConv(dk, sk, x)
	}
	panic(engineErr(fmt.Sprintf("unsupported conversion: %s -> %s, dynamic type %T", tSrc, tDst, x)))
}

func numConv(dk, sk types.BasicKind, x value) value {
	if dk == types.Float32 || sk == types.Float32 {
		panic(pathEnd{kind: Inconclusive, msg: "float32 conversion not modelled"})
	}
	s, isS := x.(sym)
	switch {
	case kindIsInt(sk) && kindIsInt(dk):
		ds := kindSort(dk)
		if !isS {
			b := bitsOf(x)
			if kindSigned(sk) {
				b = uint64(sext(b, kindSort(sk).Width()))
			}
			return fromBits(dk, b&mask(ds))
		}
		t := s.t
		switch {
		case ds.Width() < t.sort.Width():
			t = Mk(OpTrunc, ds, t)
		case ds.Width() > t.sort.Width():
			if kindSigned(sk) {
				t = Mk(OpSExt, ds, t)
			} else {
				t = Mk(OpZExt, ds, t)
			}
		}
		return mkval(t, dk)
	case kindIsInt(sk) && dk == types.Float64:
		if !isS {
			if kindSigned(sk) {
				return float64(asInt64(x))
			}
			return float64(bitsOf(x))
		}
		if kindSigned(sk) {
			return mkval(Mk(OpFFromS, SFP64, s.t), dk)
		}
		return mkval(Mk(OpFFromU, SFP64, s.t), dk)
	case sk == types.Float64 && dk == types.Float64:
		return x
	case sk == types.Float64 && kindIsInt(dk):
		if !isS {
			f := x.(float64)
			switch dk {
			case types.Int:
				return int(f)
			case types.Int8:
				return int8(f)
			case types.Int16:
				return int16(f)
			case types.Int32:
				return int32(f)
			case types.Int64:
				return int64(f)
			case types.Uint:
				return uint(f)
			case types.Uint8:
				return uint8(f)
			case types.Uint16:
				return uint16(f)
			case types.Uint32:
				return uint32(f)
			case types.Uint64:
				return uint64(f)
			case types.Uintptr:
				return uintptr(f)
			}
		}
		// amd64 semantics: CVTTSD2SQ yields 0x8000000000000000 when out of range / NaN
		t := s.t
		two63 := FloatT(9223372036854775808.0)
		in64 := And(Cmp(OpFLe, FloatT(-9223372036854775808.0), t), Cmp(OpFLt, t, two63))
		as64 := Ite(in64, Mk(OpFToS, SBV64, t), Const(SBV64, 1<<63))
		switch dk {
		case types.Int, types.Int64:
			return mkval(as64, dk)
		case types.Int32:
			in32 := And(Cmp(OpFLt, FloatT(-2147483649.0), t), Cmp(OpFLt, t, FloatT(2147483648.0)))
			return mkval(Ite(in32, Mk(OpTrunc, SBV32, Mk(OpFToS, SBV64, t)), Const(SBV32, 1<<31)), dk)
		case types.Int16, types.Int8:
			in32 := And(Cmp(OpFLt, FloatT(-2147483649.0), t), Cmp(OpFLt, t, FloatT(2147483648.0)))
			v32 := Ite(in32, Mk(OpTrunc, SBV32, Mk(OpFToS, SBV64, t)), Const(SBV32, 1<<31))
			return mkval(Mk(OpTrunc, kindSort(dk), v32), dk)
		case types.Uint32, types.Uint16, types.Uint8:
			return mkval(Mk(OpTrunc, kindSort(dk), as64), dk)
		default: // uint64, uint, uintptr
			hi := Mk(OpFSub, SFP64, t, two63)
			inHi := And(Cmp(OpFLe, two63, t), Cmp(OpFLt, t, FloatT(18446744073709551616.0)))
			r := Ite(Cmp(OpFLt, t, two63), as64,
				Ite(inHi, Bin(OpBXor, Mk(OpFToS, SBV64, hi), Const(SBV64, 1<<63)), Const(SBV64, 1<<63)))
			return mkval(r, dk)
		}
	case sk == types.Bool && dk == types.Bool, sk == types.String && dk == types.String:
		return x
	}
	panic(engineErr(fmt.Sprintf("numConv %v -> %v", sk, dk)))
}

// ---- slices, maps, type assertions ----

func sliceOp(fr *frame, x, lo, hi, max value) value {
	var Len, Cap int
	switch x := x.(type) {
	case string:
		Len = len(x)
		Cap = Len
	case symstr:
		n, ok := x.length()
		if !ok {
			panic(pathEnd{kind: Inconclusive, msg: "slice of string with formatted pieces"})
		}
		Len, Cap = n, n
	case []value:
		Len = len(x)
		Cap = cap(x)
	case *value:
		a := (*derefCheck(x)).(array)
		Len = len(a)
		Cap = cap(a)
	}
	l, h, m := 0, Len, Cap
	if lo != nil {
		l = fr.concreteBound(lo, 0, Cap, "slice low")
	}
	if hi != nil {
		h = fr.concreteBound(hi, 0, Cap, "slice high")
	}
	if max != nil {
		m = fr.concreteBound(max, 0, Cap, "slice max")
	}
	_, isStr := x.(string)
	_, isSS := x.(symstr)
	limit := Cap
	if isStr || isSS {
		limit = Len
	}
	if l < 0 || h < l || m < h || m > Cap || h > limit {
		rtPanic(fmt.Sprintf("slice bounds out of range [%d:%d] with capacity %d", l, h, limit))
	}
	switch x := x.(type) {
	case string:
		return x[l:h]
	case symstr:
		return strSlice(x, l, h)
	case []value:
		return x[l:h:m]
	case *value:
		a := (*x).(array)
		return []value(a)[l:h:m]
	}
	panic(engineErr(fmt.Sprintf("slice: unexpected X type: %T", x)))
}

func lookup(fr *frame, instr *ssa.Lookup, x, idx value) value {
	m, ok := x.(*omap)
	if !ok {
		panic(engineErr(fmt.Sprintf("unexpected x type in Lookup: %T", x)))
	}
	var v value
	e := m.find(fr, idx)
	if e != nil {
		v = copyVal(e.v)
	} else {
		v = zero(instr.X.Type().Underlying().(*types.Map).Elem())
	}
	if instr.CommaOk {
		return tuple{v, e != nil}
	}
	return v
}

func typeAssert(i *interpreter, instr *ssa.TypeAssert, itf iface) value {
	var v value
	err := ""
	if itf.t == nil {
		err = fmt.Sprintf("interface conversion: interface is nil, not %s", instr.AssertedType)
	} else if idst, ok := instr.AssertedType.Underlying().(*types.Interface); ok {
		v = itf
		if _, isNative := itf.v.(native); !isNative {
			if meth, _ := types.MissingMethod(itf.t, idst, true); meth != nil {
				err = fmt.Sprintf("interface conversion: %v is not %v: missing method %s", itf.t, idst, meth.Name())
			}
		}
	} else if types.Identical(itf.t, instr.AssertedType) {
		v = itf.v
	} else {
		err = fmt.Sprintf("interface conversion: interface {} is %s, not %s", itf.t, instr.AssertedType)
	}
	if err != "" {
		if !instr.CommaOk {
			panic(targetPanic{iface{t: types.Typ[types.String], v: err}})
		}
		return tuple{zero(instr.AssertedType), false}
	}
	if instr.CommaOk {
		return tuple{v, true}
	}
	return v
}

func callBuiltin(caller *frame, callpos token.Pos, fn *ssa.Builtin, args []value) value {
	switch fn.Name() {
	case "append":
		if len(args) == 1 {
			return args[0]
		}
		switch s := args[1].(type) {
		case string:
			arg0 := args[0].([]value)
			for i := 0; i < len(s); i++ {
				arg0 = append(arg0, s[i])
			}
			return arg0
		case symstr:
			return append(args[0].([]value), strToBytes(s)...)
		}
		// the appended elements are copies: struct and array elements must not share their cells with the source
		// (the source is read completely first: destination and source may overlap, as in
		// `append(s[:i+1], s[i:]...)`)
		srcElems := args[1].([]value)
		tmp := make([]value, len(srcElems))
		for k, e := range srcElems {
			tmp[k] = copyVal(e)
		}
		return append(args[0].([]value), tmp...)

	case "copy":
		src := args[1]
		switch s := src.(type) {
		case string:
			b := make([]value, len(s))
			for i := 0; i < len(s); i++ {
				b[i] = s[i]
			}
			src = b
		case symstr:
			src = strToBytes(s)
		}
		dstS, srcS := args[0].([]value), src.([]value)
		n := len(dstS)
		if len(srcS) < n {
			n = len(srcS)
		}
		if n > 0 && len(srcS) > 0 && &dstS[0] == &srcS[0] {
			return n
		}
		tmp := make([]value, n)
		for k := 0; k < n; k++ {
			tmp[k] = copyVal(srcS[k])
		}
		copy(dstS, tmp)
		return n

	case "close":
		chanClose(caller, args[0])
		return nil

	case "delete":
		if m := args[0].(*omap); m != nil {
			m.delete(caller, args[1])
		}
		return nil

	case "print", "println":
		return nil

	case "len":
		switch x := args[0].(type) {
		case string:
			return len(x)
		case symstr:
			n, ok := x.length()
			if !ok {
				panic(pathEnd{kind: Inconclusive, msg: "len of string with formatted symbolic number"})
			}
			return n
		case array:
			return len(x)
		case *value:
			return len((*x).(array))
		case []value:
			return len(x)
		case *omap:
			return x.len()
		case *channel:
			if x == nil {
				return 0
			}
			return len(x.buf)
		}
		panic(engineErr(fmt.Sprintf("len: illegal operand: %T", args[0])))

	case "cap":
		switch x := args[0].(type) {
		case array:
			return cap(x)
		case *value:
			return cap((*x).(array))
		case []value:
			return cap(x)
		case *channel:
			if x == nil {
				return 0
			}
			return x.cap
		}
		panic(engineErr(fmt.Sprintf("cap: illegal operand: %T", args[0])))

	case "min", "max":
		r := args[0]
		for _, a := range args[1:] {
			op := token.LSS
			if fn.Name() == "max" {
				op = token.GTR
			}
			c := binop(caller, op, nil, a, r)
			switch c := c.(type) {
			case bool:
				if c {
					r = a
				}
			case sym:
				k := goKind(r)
				r = mkval(Ite(c.t, termOf(a), termOf(r)), k)
			}
		}
		return r

	case "panic":
		panic(targetPanic{args[0]})

	case "recover":
		return doRecover(caller)

	case "ssa:wrapnilchk":
		recv := args[0]
		if recv.(*value) == nil {
			rtPanic(fmt.Sprintf("value method %v.%v called using nil pointer", args[1], args[2]))
		}
		return recv

	case "ssa:deferstack":
		return &caller.defers
	}
	panic(engineErr("unknown built-in: " + fn.Name()))
}

type stringIter struct {
	s string
	i int
}

func (it *stringIter) next(fr *frame) tuple {
	if it.i >= len(it.s) {
		return tuple{false, 0, int32(0)}
	}
	r, sz := utf8.DecodeRuneInString(it.s[it.i:])
	idx := it.i
	it.i += sz
	return tuple{true, idx, int32(r)}
}

func rangeIter(fr *frame, x value, t types.Type) iter {
	switch x := x.(type) {
	case *omap:
		return rangeOmap(fr, x)
	case string:
		return &stringIter{s: x}
	case symstr:
		return &symstrIter{s: x}
	}
	panic(engineErr(fmt.Sprintf("cannot range over %T", x)))
}
