package gosym

// Path exploration: depth-first over decision vectors with re-execution from
// the harness entry. Every symbolic branch is recorded in the vector (forced
// ones too), so a prefix is replayed without solver calls. Workers (one solver
// process each) take prefixes from a shared LIFO work list.

import (
	"fmt"
	"go/types"
	"os"
	"runtime/debug"
	"sort"
	"strings"
	"sync"
	"sync/atomic"
	"time"

	"golang.org/x/tools/go/ssa"
)

type Outcome int

const (
	OK Outcome = iota
	Pruned
	Inconclusive
	BoundExceeded
	Deadlock
	Panicked
	EngineError
)

func (o Outcome) String() string {
	return [...]string{"ok", "pruned", "inconclusive", "bound-exceeded", "deadlock", "panic", "engine-error"}[o]
}

type pathEnd struct {
	kind Outcome
	msg  string
}

type killed struct{}

type Options struct {
	MaxSteps       int  // SSA instructions per path
	MaxDepth       int  // interpreted call depth
	MaxSymLen      int  // largest concretised symbolic length
	MapOrder       bool // map iteration order is a decision
	MapOrderBudget int  // deviating ranges per path
	Sched          bool // scheduling choices are decisions
	SchedBudget    int
	BoundIsViolation bool // exceeding MaxSteps is a termination-obligation failure
	RaceMonitor      bool // lockset monitor on maps shared between goroutines
	RandBudget       int  // math/rand draws that may deviate from choice 0 per path
}

type decision struct {
	c int32 // choice taken
	n int32 // number of alternatives that were feasible (1 = forced)
}

type workItem struct {
	prefix []decision
	model  map[string]uint64
}

type Violation struct {
	Harness string            `json:"harness"`
	Pkg     string            `json:"pkg"`
	Label   string            `json:"label"`
	Kind    string            `json:"kind"` // assert | panic | deadlock | bound
	Msg     string            `json:"msg"`
	Tags    map[string]string `json:"tags"`
	Vals    map[string]string `json:"vals"` // Nd name -> value (decimal / bool / float bits)
	Sig     string            `json:"sig"`
	Count   int               `json:"count"`
	// filled by the replay gate
	Replayed   bool   `json:"replayed"`
	ReplayOut  string `json:"replay_out,omitempty"`
	ReplayFile string `json:"replay_file,omitempty"`
	Known      string `json:"known,omitempty"`
	// set by the driver for harnesses explored with scheduling decisions: the counterexample needs an interleaving
	SchedDependent bool `json:"sched_dependent,omitempty"`
}

type PathSample struct {
	Decisions string            `json:"decisions"`
	Vals      map[string]string `json:"model"`
	Outcome   string            `json:"outcome"`
	Tags      map[string]string `json:"tags,omitempty"`
}

type Result struct {
	Harness        string
	Paths          int64
	ByOutcome      map[string]int64
	SymbolicPaths  int64 // paths with >= 1 solver-decided (non-forced or forced) symbolic branch
	DistinctVectors int64
	Violations     map[string]*Violation
	InconclusiveMsgs map[string]int
	Reached        map[string]int64
	Funcs          map[string]bool
	Samples        []PathSample
	Exhausted      bool // work list emptied within budget
	Stats          SolverStats
	WallS          float64
	Asserts        int64 // assertion obligations checked
	AssertQueries  int64
}

type Run struct {
	prog     *Program
	cfg      *HarnessCfg
	buildMu  sync.Mutex // serialises lazy SSA builds of library packages
	mu       sync.Mutex
	cond     *sync.Cond
	work     []workItem
	active   int
	stop     bool
	res      *Result
	started  time.Time
	pathsN   int64
	overrideFns map[*ssa.Function]*ssa.Function
	stable      map[string]string
}

// HarnessCfg describes one harness exploration.
type HarnessCfg struct {
	Pkg        string // import path of the package holding the harness
	Func       string // harness function name
	Opts       Options
	Workers    int
	SolverBin  []string
	TimeoutMs  int
	MaxPaths   int64
	Deadline   time.Duration
	Transcript string // optional SMT transcript path prefix
	MaxSamples int
	Params     map[string]int
	Fixed      map[string]int // debugging: pin NdIntRange selectors
	// Overrides replaces repo functions by harness functions for this harness
	// (keys and values are ssa.Function.String() names with the module path abbreviated as "~").
	Overrides map[string]string
}

type interpreter struct {
	stdDepth int // > 0 while the SSA body of a library function is being interpreted
	prog    *ssa.Program
	P       *Program
	globals map[*ssa.Global]*value
	opts    Options
	run     *Run
	solver  *Solver

	pc      []*Term
	pcSet   map[*Term]bool
	prefix  []decision
	pos     int
	taken   []decision
	model   map[string]uint64
	memo    map[*Term]evalRes
	steps   int
	depth   int
	vars    []*Term
	varKind map[string]types.BasicKind
	ndVals  map[string]string // concrete Nd choices (NdIntRange...)
	tags    map[string]string
	reached map[string]bool
	funcs   map[*ssa.Function]struct{}
	mapOrderBudget int
	schedBudget    int
	randBudget     int
	randDraws      int
	symbolicBranches int
	inconcl []string

	// goroutines
	gors     []*gor
	cur      *gor
	dead     bool
	fatal    interface{}
	fatalStk string
	finished chan struct{}
	wg       sync.WaitGroup
	locks    map[*value]*lockState
	wgs      map[*value]*wgState
	natives  map[*value]interface{}
	blobs    []value
	panicSite string
	mapAcc    map[*omap]*accessState
	watched   map[*value]string       // cells of the VM's shared bookkeeping (fields of runtime.VM), by name
	cellAcc   map[*value]*accessState
	syncVC    map[interface{}]vclock
}

func (i *interpreter) interpretable(fn *ssa.Function) bool {
	if fn.Pkg == nil {
		// synthetic wrapper / bound method / instantiation: follow the origin's package
		if o := fn.Origin(); o != nil && o.Pkg != nil {
			return i.P.repoPkgs[o.Pkg] || interpretOK[o.String()]
		}
		if fn.Synthetic != "" {
			// wrappers delegate to a declared method; decide by the method's package
			if obj := fn.Object(); obj != nil && obj.Pkg() != nil {
				if i.P.repoPaths[obj.Pkg().Path()] {
					return true
				}
				return interpretOK[fn.String()] || intrinsics[fn.String()] == nil && wrapperOK(fn)
			}
			return true
		}
		return true
	}
	if i.P.repoPkgs[fn.Pkg] {
		return true
	}
	return interpretOK[fn.String()]
}

// wrapperOK: synthetic wrappers ($bound, $thunk, promoted-method wrappers) of
// external methods are interpreted (they only forward); the forwarded callee
// is then resolved as intrinsic or unsupported.
func wrapperOK(fn *ssa.Function) bool {
	return strings.Contains(fn.Synthetic, "wrapper") || strings.Contains(fn.Synthetic, "bound") || strings.Contains(fn.Synthetic, "thunk")
}

func (i *interpreter) inRepoCode(fr *frame) bool {
	for f := fr; f != nil; f = f.caller {
		if f.fn != nil && f.fn.Pkg != nil {
			return i.P.repoPkgs[f.fn.Pkg]
		}
	}
	return true
}

func (i *interpreter) externalGlobal(g *ssa.Global) value {
	if f, ok := externalGlobalFns[g.String()]; ok {
		cell := f(i)
		p := &cell
		i.globals[g] = p
		return p
	}
	if v, ok := externalGlobals[g.String()]; ok {
		cell := v
		p := &cell
		i.globals[g] = p
		return p
	}
	panic(pathEnd{kind: Inconclusive, msg: "unsupported external global: " + g.String()})
}

// ---- decisions ----

func (i *interpreter) evalModel(t *Term) (uint64, bool) {
	if i.model == nil {
		return 0, false
	}
	return Eval(t, i.model, i.memo)
}

func (i *interpreter) setModel(m map[string]uint64) {
	i.model = m
	i.memo = map[*Term]evalRes{}
}

func (i *interpreter) check(extra ...*Term) SatResult {
	lits := make([]*Term, 0, len(i.pc)+len(extra))
	lits = append(lits, i.pc...)
	lits = append(lits, extra...)
	if d := i.run.cfg.Deadline; d > 0 && time.Since(i.run.started) > d+d/4 {
		// the harness's wall budget is used up: stop this path instead of queueing more solver work
		panic(pathEnd{kind: Inconclusive, msg: "wall budget of the harness exhausted inside a path"})
	}
	return i.solver.Check(lits)
}

func (i *interpreter) fetchModel() map[string]uint64 {
	return i.solver.Model(i.vars)
}

// branch decides a symbolic condition, forking when both sides are feasible.
func (i *interpreter) branch(c *Term) bool {
	if c == TTrue {
		return true
	}
	if c == TFalse {
		return false
	}
	if i.pcSet[c] {
		return true
	}
	if i.pcSet[Not(c)] {
		return false
	}
	i.symbolicBranches++
	if i.pos < len(i.prefix) {
		d := i.prefix[i.pos]
		i.pos++
		i.taken = append(i.taken, d)
		if d.c == 0 {
			i.addPC(c)
			return true
		}
		i.addPC(Not(c))
		return false
	}
	i.pos++
	nc := Not(c)
	// side taken by the cached model is feasible without a query
	if v, ok := i.evalModel(c); ok {
		mine, other := c, nc
		mineChoice := int32(0)
		if v == 0 {
			mine, other = nc, c
			mineChoice = 1
		}
		r := i.check(other)
		switch r {
		case Sat:
			m := i.fetchModel()
			alt := append(append([]decision(nil), i.taken...), decision{1 - mineChoice, 2})
			i.run.push(workItem{alt, m})
			i.taken = append(i.taken, decision{mineChoice, 2})
		case Unsat:
			i.taken = append(i.taken, decision{mineChoice, 1})
		default:
			i.noteInconclusive("solver unknown on branch feasibility (side not explored)")
			i.taken = append(i.taken, decision{mineChoice, 1})
		}
		i.addPC(mine)
		return mineChoice == 0
	}
	// no usable model: ask about both sides
	rt := i.check(c)
	var mt map[string]uint64
	if rt == Sat {
		mt = i.fetchModel()
	}
	rf := i.check(nc)
	var mf map[string]uint64
	if rf == Sat {
		mf = i.fetchModel()
	}
	if rt == Unknown || rf == Unknown {
		i.noteInconclusive("solver unknown on branch feasibility (side not explored)")
	}
	switch {
	case rt == Sat && rf == Sat:
		alt := append(append([]decision(nil), i.taken...), decision{1, 2})
		i.run.push(workItem{alt, mf})
		i.taken = append(i.taken, decision{0, 2})
		i.addPC(c)
		i.setModel(mt)
		return true
	case rt == Sat:
		i.taken = append(i.taken, decision{0, 1})
		i.addPC(c)
		i.setModel(mt)
		return true
	case rf == Sat:
		i.taken = append(i.taken, decision{1, 1})
		i.addPC(nc)
		i.setModel(mf)
		return false
	}
	// neither side satisfiable (or unknown): the path condition itself is infeasible/undecided
	if rt == Unsat && rf == Unsat {
		panic(pathEnd{kind: Pruned, msg: "infeasible path condition"})
	}
	panic(pathEnd{kind: Inconclusive, msg: "solver unknown on both sides of a branch"})
}

// choose picks one of n always-feasible alternatives (sizes, selectors, orders).
func (i *interpreter) choose(n int, label string) int {
	if n <= 1 {
		return 0
	}
	if i.pos < len(i.prefix) {
		d := i.prefix[i.pos]
		i.pos++
		i.taken = append(i.taken, d)
		return int(d.c)
	}
	i.pos++
	for k := n - 1; k >= 1; k-- {
		alt := append(append([]decision(nil), i.taken...), decision{int32(k), int32(n)})
		i.run.push(workItem{alt, i.model})
	}
	i.taken = append(i.taken, decision{0, int32(n)})
	return 0
}

// assume adds c to the path condition or prunes the path.
func (i *interpreter) assume(c *Term) {
	if c == TTrue {
		return
	}
	if c == TFalse {
		panic(pathEnd{kind: Pruned, msg: "assume false"})
	}
	if v, ok := i.evalModel(c); ok && v == 1 {
		i.addPC(c)
		return
	}
	switch i.check(c) {
	case Sat:
		i.addPC(c)
		i.setModel(i.fetchModel())
	case Unsat:
		panic(pathEnd{kind: Pruned, msg: "assume infeasible"})
	default:
		panic(pathEnd{kind: Inconclusive, msg: "solver unknown on assume"})
	}
}

func (i *interpreter) addPC(t *Term) {
	if i.pcSet == nil {
		i.pcSet = map[*Term]bool{}
	}
	if i.pcSet[t] {
		return
	}
	i.pcSet[t] = true
	i.pc = append(i.pc, t)
	// conjunctions imply their parts
	if t.op == OpAnd {
		for _, a := range t.args {
			i.pcSet[a] = true
		}
	}
}

func (i *interpreter) noteInconclusive(msg string) {
	i.inconcl = append(i.inconcl, msg)
}

// modelVals renders the model of the current path for a replay file.
func (i *interpreter) modelVals(m map[string]uint64) map[string]string {
	out := map[string]string{}
	for k, v := range i.ndVals {
		out[k] = v
	}
	for _, v := range i.vars {
		bits := m[v.name]
		name := strings.TrimPrefix(v.name, "nd_")
		switch i.varKind[v.name] {
		case types.Bool:
			out[name] = fmt.Sprint(bits&1 == 1)
		case types.Float64:
			out[name] = fmt.Sprintf("f:%016x", bits)
		case types.Int, types.Int64:
			out[name] = fmt.Sprint(int64(bits))
		case types.Int32:
			out[name] = fmt.Sprint(int32(bits))
		case types.Int16:
			out[name] = fmt.Sprint(int16(bits))
		case types.Int8:
			out[name] = fmt.Sprint(int8(bits))
		default:
			out[name] = fmt.Sprint(bits)
		}
	}
	return out
}

func (i *interpreter) violation(kind, label, msg string, m map[string]uint64) {
	tags := map[string]string{}
	for k, v := range i.tags {
		if !strings.HasPrefix(k, "__") {
			tags[k] = v
		}
	}
	var ks []string
	for k, v := range tags {
		ks = append(ks, k+"="+v)
	}
	sort.Strings(ks)
	sig := i.run.cfg.Func + "|" + kind + "|" + label + "|" + strings.Join(ks, ",")
	if m == nil {
		m = i.model
	}
	if os.Getenv("GOSYM_DEBUG_PC") != "" {
		for _, t := range i.pc {
			msg += "\n  PC: " + t.String()
		}
	}
	v := &Violation{Harness: i.run.cfg.Func, Pkg: i.run.cfg.Pkg, Label: label, Kind: kind, Msg: msg, Tags: tags, Vals: i.modelVals(m), Sig: sig, Count: 1}
	r := i.run
	r.mu.Lock()
	if old, ok := r.res.Violations[sig]; ok {
		old.Count++
	} else {
		r.res.Violations[sig] = v
	}
	r.mu.Unlock()
}

// ---- run ----

func (r *Run) push(w workItem) {
	r.mu.Lock()
	r.work = append(r.work, w)
	r.mu.Unlock()
	r.cond.Signal()
}

func (r *Run) pop() (workItem, bool) {
	r.mu.Lock()
	defer r.mu.Unlock()
	for {
		if r.stop {
			return workItem{}, false
		}
		if n := len(r.work); n > 0 {
			w := r.work[n-1]
			r.work = r.work[:n-1]
			r.active++
			return w, true
		}
		if r.active == 0 {
			r.cond.Broadcast()
			return workItem{}, false
		}
		r.cond.Wait()
	}
}

func (r *Run) done() {
	r.mu.Lock()
	r.active--
	if r.active == 0 && len(r.work) == 0 {
		r.cond.Broadcast()
	}
	r.mu.Unlock()
}

// Explore runs one harness to exhaustion (or budget) and returns the result.
func Explore(p *Program, cfg *HarnessCfg) *Result {
	if cfg.Workers <= 0 {
		cfg.Workers = 16
	}
	if cfg.Opts.MaxSteps == 0 {
		cfg.Opts.MaxSteps = 2_000_000
	}
	if cfg.Opts.MaxDepth == 0 {
		cfg.Opts.MaxDepth = 4000
	}
	if cfg.Opts.MaxSymLen == 0 {
		cfg.Opts.MaxSymLen = 16
	}
	if cfg.MaxSamples == 0 {
		cfg.MaxSamples = 6
	}
	if len(cfg.SolverBin) == 0 {
		cfg.SolverBin = []string{"z3", "-in"}
	}
	if cfg.TimeoutMs == 0 {
		cfg.TimeoutMs = 20000
	}
	res := &Result{Harness: cfg.Func, ByOutcome: map[string]int64{}, Violations: map[string]*Violation{},
		InconclusiveMsgs: map[string]int{}, Reached: map[string]int64{}, Funcs: map[string]bool{}}
	r := &Run{prog: p, cfg: cfg, res: res, started: time.Now()}
	r.cond = sync.NewCond(&r.mu)
	pkg := p.pkgByPath[cfg.Pkg]
	if pkg == nil {
		panic("no such package: " + cfg.Pkg)
	}
	fn := pkg.Func(cfg.Func)
	if fn == nil {
		panic("no such harness: " + cfg.Pkg + "." + cfg.Func)
	}
	r.overrideFns = map[*ssa.Function]*ssa.Function{}
	if len(cfg.Overrides) > 0 {
		byName := map[string]*ssa.Function{}
		for f := range p.allFuncs() {
			byName[f.String()] = f
		}
		for from, to := range cfg.Overrides {
			ff, tf := byName[strings.ReplaceAll(from, "~", p.Module)], byName[strings.ReplaceAll(to, "~", p.Module)]
			if ff == nil || tf == nil {
				panic("override: unknown function " + from + " or " + to)
			}
			r.overrideFns[ff] = tf
		}
	}
	r.work = []workItem{{}}
	var wg sync.WaitGroup
	for w := 0; w < cfg.Workers; w++ {
		wg.Add(1)
		go func(w int) {
			defer wg.Done()
			var log *os.File
			if cfg.Transcript != "" {
				log, _ = os.Create(fmt.Sprintf("%s.%d.smt2", cfg.Transcript, w))
				defer log.Close()
			}
			var s *Solver
			if log != nil {
				s = NewSolver(cfg.SolverBin, cfg.TimeoutMs, &res.Stats, log)
			} else {
				s = NewSolver(cfg.SolverBin, cfg.TimeoutMs, &res.Stats, nil)
			}
			defer s.Close()
			for {
				item, ok := r.pop()
				if !ok {
					return
				}
				r.runPath(s, pkg, fn, item)
				r.done()
				n := atomic.AddInt64(&r.pathsN, 1)
				if (cfg.MaxPaths > 0 && n >= cfg.MaxPaths) || (cfg.Deadline > 0 && time.Since(r.started) > cfg.Deadline) {
					r.mu.Lock()
					r.stop = true
					r.mu.Unlock()
					r.cond.Broadcast()
				}
			}
		}(w)
	}
	wg.Wait()
	res.Paths = r.pathsN
	res.Exhausted = !r.stop && len(r.work) == 0
	res.WallS = time.Since(r.started).Seconds()
	return res
}

func decString(ds []decision) string {
	var sb strings.Builder
	for _, d := range ds {
		if d.n == 1 {
			fmt.Fprintf(&sb, "%d!", d.c)
		} else if d.n == 2 {
			fmt.Fprintf(&sb, "%d", d.c)
		} else {
			fmt.Fprintf(&sb, "[%d/%d]", d.c, d.n)
		}
	}
	return sb.String()
}

func (r *Run) runPath(s *Solver, pkg *ssa.Package, fn *ssa.Function, item workItem) {
	i := &interpreter{
		prog: r.prog.Prog, P: r.prog, globals: map[*ssa.Global]*value{}, opts: r.cfg.Opts, run: r, solver: s,
		prefix: item.prefix, varKind: map[string]types.BasicKind{}, ndVals: map[string]string{},
		tags: map[string]string{}, reached: map[string]bool{}, funcs: map[*ssa.Function]struct{}{},
		mapOrderBudget: r.cfg.Opts.MapOrderBudget, schedBudget: r.cfg.Opts.SchedBudget, randBudget: r.cfg.Opts.RandBudget,
		finished: make(chan struct{}, 1), locks: map[*value]*lockState{}, wgs: map[*value]*wgState{},
		natives: map[*value]interface{}{},
	}
	if item.model != nil {
		i.setModel(item.model)
	} else {
		i.setModel(map[string]uint64{})
	}
	for _, p := range r.prog.repoList {
		for _, m := range p.Members {
			if g, ok := m.(*ssa.Global); ok {
				cell := zero(mustDeref(g.Type()))
				i.globals[g] = &cell
			}
		}
	}
	out, msg := i.runMain(pkg, fn)

	// a bound-exceeded path may be a termination-obligation failure
	if out == Panicked && i.tags["__ignore_panic"] != "" {
		// the harness declared process-level panics to be another property's subject
		out = OK
		i.reached["panic-ignored"] = true
	}
	switch out {
	case Panicked:
		i.violation("panic", "unexpected-panic", msg, nil)
	case Deadlock:
		i.violation("deadlock", "deadlock", msg, nil)
	case BoundExceeded:
		if r.cfg.Opts.BoundIsViolation {
			i.violation("bound", "step-bound", msg, nil)
		}
	}

	r.mu.Lock()
	defer r.mu.Unlock()
	res := r.res
	res.ByOutcome[out.String()]++
	if i.symbolicBranches > 0 {
		res.SymbolicPaths++
	}
	if out == Inconclusive || out == EngineError || (out == BoundExceeded && !r.cfg.Opts.BoundIsViolation) {
		k := out.String() + ": " + msg
		if len(k) > 6000 {
			k = k[:6000]
		}
		res.InconclusiveMsgs[k]++
	}
	for _, m := range i.inconcl {
		res.InconclusiveMsgs["note: "+m]++
	}
	for k := range i.reached {
		res.Reached[k]++
	}
	for f := range i.funcs {
		if f.Pkg != nil && r.prog.repoPkgs[f.Pkg] || f.Pkg == nil {
			res.Funcs[f.String()] = true
		}
	}
	if len(res.Samples) < r.cfg.MaxSamples && i.symbolicBranches > 0 && out == OK {
		res.Samples = append(res.Samples, PathSample{Decisions: decString(i.taken), Vals: i.modelVals(i.model), Outcome: out.String(), Tags: i.tags})
	}
}

// runMain executes package inits and the harness on the main interpreted goroutine.
func (i *interpreter) runMain(pkg *ssa.Package, fn *ssa.Function) (out Outcome, msg string) {
	g0 := &gor{id: 0, wake: make(chan struct{})}
	i.gors = []*gor{g0}
	i.cur = g0
	i.wg.Add(1)
	go func() {
		defer i.wg.Done()
		defer func() {
			g0.done = true
			if r := recover(); r != nil {
				if _, ok := r.(killed); !ok && i.fatal == nil {
					i.fatal = r
					i.fatalStk = string(debug.Stack())
				}
			}
			select {
			case i.finished <- struct{}{}:
			default:
			}
		}()
		call(i, nil, 0, pkg.Func("init"), nil)
		call(i, nil, 0, fn, nil)
	}()
	<-i.finished
	// tear down other goroutines
	i.dead = true
	for _, g := range i.gors {
		if !g.done && g.parked {
			g.wake <- struct{}{}
		}
	}
	i.wg.Wait()
	if i.fatal == nil {
		return OK, ""
	}
	switch f := i.fatal.(type) {
	case pathEnd:
		return f.kind, f.msg
	case targetPanic:
		return Panicked, f.String()
	case engineErr:
		return EngineError, string(f)
	default:
		stk := i.fatalStk
		if len(stk) > 6000 {
			stk = stk[:6000]
		}
		return EngineError, fmt.Sprintf("host panic: %v\n%s", f, stk)
	}
}
