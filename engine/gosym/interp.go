package gosym

// Symbolic interpreter for go/ssa. Structure follows
// golang.org/x/tools/go/ssa/interp (BSD-style licence, The Go Authors);
// scalars may carry SMT terms, branches on symbolic conditions fork through
// the path explorer, and every partial operation (index, slice, nil
// dereference, type assertion, integer division, shift, map write) is checked
// explicitly so that a Go run-time failure of the target program is a
// targetPanic and never a host failure.

import (
	"reflect"
	"fmt"
	"go/token"
	"go/types"
	"slices"
	"strings"

	"golang.org/x/tools/go/ssa"
)

type continuation int

const (
	kNext continuation = iota
	kReturn
	kJump
)

// targetPanic: the target program panicked (explicitly or by run-time error).
type targetPanic struct {
	v value
}

func (p targetPanic) String() string { return panicString(p.v) }

func panicString(v value) string {
	if it, ok := v.(iface); ok {
		switch x := it.v.(type) {
		case string:
			if it.t != nil && it.t.String() == "runtime.errorString" {
				return "runtime error: " + x
			}
			return x
		case symstr:
			return x.plain()
		case *value:
			// *errors.errorString and friends
			if x != nil {
				if st, ok := (*x).(structure); ok && len(st) > 0 {
					if s, ok := st[0].(string); ok {
						return s
					}
				}
			}
		}
		return toString(it)
	}
	return toString(v)
}

// engineErr: the engine met something it cannot model; the path is inconclusive.
type engineErr string

type deferred struct {
	fn    value
	args  []value
	instr *ssa.Defer
	tail  *deferred
}

type frame struct {
	i                *interpreter
	caller           *frame
	fn               *ssa.Function
	block, prevBlock *ssa.BasicBlock
	env              map[ssa.Value]value
	locals           []value
	defers           *deferred
	result           value
	panicking        bool
	panic            interface{}
	phitemps         []value
	g                *gor
}

func (fr *frame) branch(c *Term) bool { return fr.i.branch(c) }

func (fr *frame) get(key ssa.Value) value {
	switch key := key.(type) {
	case nil:
		return nil
	case *ssa.Function, *ssa.Builtin:
		return key
	case *ssa.Const:
		return constValue(key)
	case *ssa.Global:
		if r, ok := fr.i.globals[key]; ok {
			return r
		}
		return fr.i.externalGlobal(key)
	}
	if r, ok := fr.env[key]; ok {
		return r
	}
	panic(engineErr(fmt.Sprintf("get: no value for %T: %v", key, key.Name())))
}

func isEnginePanic(r interface{}) bool {
	switch r.(type) {
	case pathEnd, engineErr, killed:
		return true
	case targetPanic:
		return false
	}
	return true // host runtime errors etc. are engine defects, never target panics
}

func (fr *frame) runDefer(d *deferred) {
	var ok bool
	defer func() {
		if !ok {
			r := recover()
			if isEnginePanic(r) {
				panic(r)
			}
			fr.panicking = true
			fr.panic = r
		}
	}()
	call(fr.i, fr, d.instr.Pos(), d.fn, d.args)
	ok = true
}

func (fr *frame) runDefers() {
	for d := fr.defers; d != nil; d = d.tail {
		fr.runDefer(d)
	}
	fr.defers = nil
	if fr.panicking {
		panic(fr.panic)
	}
}

func lookupMethod(i *interpreter, typ types.Type, meth *types.Func) *ssa.Function {
	return i.prog.LookupMethod(typ, meth.Pkg(), meth.Name())
}

func rtErr(msg string) value {
	return iface{t: runtimeErrorT, v: strings.TrimPrefix(msg, "runtime error: ")}
}

func rtPanic(msg string) {
	panic(targetPanic{rtErr(msg)})
}

// derefCheck panics (target) on nil pointer.
func derefCheck(p value) *value {
	a, ok := p.(*value)
	if !ok {
		panic(engineErr(fmt.Sprintf("deref of %T", p)))
	}
	if a == nil {
		rtPanic("invalid memory address or nil pointer dereference")
	}
	return a
}

// concreteIndex resolves idx against length n: returns the index, forking on
// symbolic indices; panics (target) when out of range.
func (fr *frame) concreteIndex(idx value, n int, what string) int {
	if s, ok := idx.(sym); ok {
		sort := s.t.sort
		w := sort.Width()
		_ = w
		var inRange *Term
		if kindSigned(s.k) {
			inRange = And(Cmp(OpSle, Const(sort, 0), s.t), Cmp(OpSlt, s.t, Const(sort, uint64(n))))
		} else {
			inRange = Cmp(OpUlt, s.t, Const(sort, uint64(n)))
		}
		if !fr.branch(inRange) {
			rtPanic(fmt.Sprintf("index out of range [symbolic] with length %d", n))
		}
		for k := 0; k < n-1; k++ {
			if fr.branch(Eq(s.t, Const(sort, uint64(k)))) {
				return k
			}
		}
		return n - 1
	}
	i := asInt64(idx)
	if i < 0 || i >= int64(n) {
		rtPanic(fmt.Sprintf("index out of range [%d] with length %d", i, n))
	}
	return int(i)
}

// concreteInt forces an integer to a concrete value, forking over lo..hi.
func (fr *frame) concreteBound(v value, lo, hi int, what string) int {
	if s, ok := v.(sym); ok {
		sort := s.t.sort
		for k := lo; k <= hi; k++ {
			if fr.branch(Eq(s.t, Const(sort, uint64(int64(k))))) {
				return k
			}
		}
		return hi + 1 // out of the permitted range (caller reports)
	}
	return int(asInt64(v))
}

func visitInstr(fr *frame, instr ssa.Instruction) continuation {
	switch instr := instr.(type) {
	case *ssa.DebugRef:
		// no-op

	case *ssa.UnOp:
		fr.env[instr] = unop(fr, instr, fr.get(instr.X))

	case *ssa.BinOp:
		fr.env[instr] = binop(fr, instr.Op, instr.X.Type(), fr.get(instr.X), fr.get(instr.Y))

	case *ssa.Call:
		fn, args := prepareCall(fr, &instr.Call)
		fr.env[instr] = call(fr.i, fr, instr.Pos(), fn, args)

	case *ssa.ChangeInterface:
		fr.env[instr] = fr.get(instr.X)

	case *ssa.ChangeType:
		fr.env[instr] = fr.get(instr.X)

	case *ssa.Convert:
		fr.env[instr] = conv(fr, instr.Type(), instr.X.Type(), fr.get(instr.X))

	case *ssa.MakeInterface:
		fr.env[instr] = iface{t: instr.X.Type(), v: fr.get(instr.X)}

	case *ssa.Extract:
		fr.env[instr] = fr.get(instr.Tuple).(tuple)[instr.Index]

	case *ssa.Slice:
		fr.env[instr] = sliceOp(fr, fr.get(instr.X), fr.get(instr.Low), fr.get(instr.High), fr.get(instr.Max))

	case *ssa.Return:
		switch len(instr.Results) {
		case 0:
		case 1:
			fr.result = fr.get(instr.Results[0])
		default:
			var res []value
			for _, r := range instr.Results {
				res = append(res, fr.get(r))
			}
			fr.result = tuple(res)
		}
		fr.block = nil
		return kReturn

	case *ssa.RunDefers:
		fr.runDefers()

	case *ssa.Panic:
		panic(targetPanic{fr.get(instr.X)})

	case *ssa.Send:
		chanSend(fr, fr.get(instr.Chan), fr.get(instr.X))

	case *ssa.Store:
		addr := derefCheck(fr.get(instr.Addr))
		if fr.i.watched != nil {
			if name, ok := fr.i.watched[addr]; ok {
				fr.i.noteCellAccess(fr, addr, name, true)
			}
		}
		store(mustDeref(instr.Addr.Type()), addr, fr.get(instr.Val))

	case *ssa.If:
		succ := 1
		switch c := fr.get(instr.Cond).(type) {
		case bool:
			if c {
				succ = 0
			}
		case sym:
			if fr.branch(c.t) {
				succ = 0
			}
		default:
			panic(engineErr(fmt.Sprintf("If on %T", c)))
		}
		fr.prevBlock, fr.block = fr.block, fr.block.Succs[succ]
		return kJump

	case *ssa.Jump:
		fr.prevBlock, fr.block = fr.block, fr.block.Succs[0]
		return kJump

	case *ssa.Defer:
		fn, args := prepareCall(fr, &instr.Call)
		defers := &fr.defers
		if into := fr.get(instr.DeferStack); into != nil {
			defers = into.(**deferred)
		}
		*defers = &deferred{fn: fn, args: args, instr: instr, tail: *defers}

	case *ssa.Go:
		fn, args := prepareCall(fr, &instr.Call)
		fr.i.spawn(fr, instr.Pos(), fn, args)

	case *ssa.MakeChan:
		fr.env[instr] = newChannel(int(asInt64(fr.get(instr.Size))), instr.Type().Underlying().(*types.Chan).Elem())

	case *ssa.Alloc:
		var addr *value
		if instr.Heap {
			addr = new(value)
			fr.env[instr] = addr
		} else {
			addr = fr.env[instr].(*value)
		}
		*addr = zero(mustDeref(instr.Type()))

	case *ssa.MakeSlice:
		ln := fr.concreteBound(fr.get(instr.Len), 0, fr.i.opts.MaxSymLen, "make len")
		cp := fr.concreteBound(fr.get(instr.Cap), 0, fr.i.opts.MaxSymLen, "make cap")
		if ln < 0 || cp < ln {
			rtPanic("makeslice: len out of range")
		}
		if cp > 1<<24 {
			panic(pathEnd{kind: Inconclusive, msg: fmt.Sprintf("makeslice of %d elements", cp)})
		}
		sl := make([]value, cp)
		tElt := instr.Type().Underlying().(*types.Slice).Elem()
		for i := range sl {
			sl[i] = zero(tElt)
		}
		fr.env[instr] = sl[:ln]

	case *ssa.MakeMap:
		nm := newOmap(instr.Type().Underlying().(*types.Map).Key())
		nm.site = fr.fn.String()
		fr.env[instr] = nm

	case *ssa.Range:
		fr.env[instr] = rangeIter(fr, fr.get(instr.X), instr.X.Type())

	case *ssa.Next:
		fr.env[instr] = fr.get(instr.Iter).(iter).next(fr)

	case *ssa.FieldAddr:
		a := derefCheck(fr.get(instr.X))
		cell := &(*a).(structure)[instr.Field]
		fr.env[instr] = cell
		if fr.i.opts.RaceMonitor {
			fr.i.watchField(instr, a, cell)
		}

	case *ssa.Field:
		fr.env[instr] = fr.get(instr.X).(structure)[instr.Field]

	case *ssa.IndexAddr:
		x := fr.get(instr.X)
		idx := fr.get(instr.Index)
		switch x := x.(type) {
		case []value:
			fr.env[instr] = &x[fr.concreteIndex(idx, len(x), "slice")]
		case *value: // *array
			a := (*derefCheck(x)).(array)
			fr.env[instr] = &a[fr.concreteIndex(idx, len(a), "array")]
		default:
			panic(engineErr(fmt.Sprintf("unexpected x type in IndexAddr: %T", x)))
		}

	case *ssa.Index:
		x := fr.get(instr.X)
		idx := fr.get(instr.Index)
		switch x := x.(type) {
		case array:
			fr.env[instr] = x[fr.concreteIndex(idx, len(x), "array")]
		case string:
			fr.env[instr] = x[fr.concreteIndex(idx, len(x), "string")]
		case symstr:
			bs := x.byteTerms()
			fr.env[instr] = mkval(bs[fr.concreteIndex(idx, len(bs), "string")], types.Uint8)
		default:
			panic(engineErr(fmt.Sprintf("unexpected x type in Index: %T", x)))
		}

	case *ssa.Lookup:
		fr.env[instr] = lookup(fr, instr, fr.get(instr.X), fr.get(instr.Index))

	case *ssa.MapUpdate:
		m := fr.get(instr.Map).(*omap)
		if m == nil {
			panic(targetPanic{iface{t: types.Typ[types.String], v: "assignment to entry in nil map"}})
		}
		m.insert(fr, fr.get(instr.Key), copyVal(fr.get(instr.Value)))

	case *ssa.TypeAssert:
		fr.env[instr] = typeAssert(fr.i, instr, fr.get(instr.X).(iface))

	case *ssa.MakeClosure:
		var bindings []value
		for _, binding := range instr.Bindings {
			bindings = append(bindings, fr.get(binding))
		}
		fr.env[instr] = &closure{instr.Fn.(*ssa.Function), bindings}

	case *ssa.Phi:
		panic(engineErr("phi outside block entry"))

	case *ssa.Select:
		fr.env[instr] = selectOp(fr, instr)

	default:
		panic(engineErr(fmt.Sprintf("unexpected instruction: %T", instr)))
	}
	return kNext
}

func mustDeref(t types.Type) types.Type {
	if p, ok := t.Underlying().(*types.Pointer); ok {
		return p.Elem()
	}
	panic(engineErr("mustDeref of " + t.String()))
}

func prepareCall(fr *frame, call *ssa.CallCommon) (fn value, args []value) {
	v := fr.get(call.Value)
	if call.Method == nil {
		fn = v
	} else {
		recv := v.(iface)
		if recv.t == nil {
			rtPanic("invalid memory address or nil pointer dereference")
		}
		if nv, ok := recv.v.(native); ok {
			// method of an opaque host object
			fn = nativeMethod{nv, call.Method.Name()}
		} else if f := lookupMethod(fr.i, recv.t, call.Method); f == nil {
			panic(engineErr(fmt.Sprintf("method set for dynamic type %v does not contain %s", recv.t, call.Method)))
		} else {
			fn = f
			args = append(args, recv.v)
		}
	}
	for _, arg := range call.Args {
		args = append(args, fr.get(arg))
	}
	return
}

type nativeMethod struct {
	recv native
	name string
}

func call(i *interpreter, caller *frame, callpos token.Pos, fn value, args []value) value {
	switch fn := fn.(type) {
	case *ssa.Function:
		if fn == nil {
			rtPanic("invalid memory address or nil pointer dereference")
		}
		return callSSA(i, caller, callpos, fn, args, nil)
	case *closure:
		return callSSA(i, caller, callpos, fn.Fn, args, fn.Env)
	case *ssa.Builtin:
		return callBuiltin(caller, callpos, fn, args)
	case nativeMethod:
		return callNativeMethod(caller, fn, args)
	}
	panic(engineErr(fmt.Sprintf("cannot call %T", fn)))
}

func callSSA(i *interpreter, caller *frame, callpos token.Pos, fn *ssa.Function, args []value, env []value) value {
	if repl := i.run.overrideFns[fn]; repl != nil && (caller == nil || caller.fn != repl) {
		fn = repl // calls made directly by the replacement reach the original
	}
	fr := &frame{i: i, caller: caller, fn: fn}
	if caller != nil {
		fr.g = caller.g
	} else {
		fr.g = i.cur
	}
	i.depth++
	if i.depth > i.opts.MaxDepth {
		panic(pathEnd{kind: BoundExceeded, msg: fmt.Sprintf("interpreted call depth > %d in %s", i.opts.MaxDepth, fn)})
	}
	defer func() { i.depth-- }()

	if !i.interpretable(fn) {
		name := fn.String()
		ext := intrinsics[name]
		// A library function whose host implementation cannot take symbolic arguments (or that has no model at all
		// while a library body is being interpreted) is executed from its own SSA body instead.
		useBody := false
		if ext != nil && isNativeOnly(ext) && anySymbolic(args) {
			useBody = i.stdBody(fn)
		} else if ext == nil && i.stdDepth > 0 {
			useBody = i.stdBody(fn)
		}
		if !useBody {
			if ext != nil {
				return ext(fr, args)
			}
			if fn.Name() == "init" && fn.Signature.Recv() == nil && len(args) == 0 {
				return nil // package initialisers of external packages are never run
			}
			panic(pathEnd{kind: Inconclusive, msg: "unsupported external function: " + name})
		}
		i.stdDepth++
		defer func() {
			i.stdDepth--
			// a library body that uses something the engine has no model for (unsafe casts, assembly stubs) is a
			// modelling gap on this path, not an engine defect
			if r := recover(); r != nil {
				if e, ok := r.(engineErr); ok && i.stdDepth == 0 {
					panic(pathEnd{kind: Inconclusive, msg: "library function " + fn.String() + " cannot be interpreted symbolically: " + string(e)})
				}
				panic(r)
			}
		}()
	} else if ext := overrides[fn.String()]; ext != nil {
		return ext(fr, args)
	}
	if fn.Blocks == nil {
		panic(pathEnd{kind: Inconclusive, msg: "no code for function: " + fn.String()})
	}
	if i.funcs != nil {
		i.funcs[fn] = struct{}{}
	}

	fr.env = make(map[ssa.Value]value, 16)
	fr.block = fn.Blocks[0]
	fr.locals = make([]value, len(fn.Locals))
	for i, l := range fn.Locals {
		fr.locals[i] = zero(mustDeref(l.Type()))
		fr.env[l] = &fr.locals[i]
	}
	for i, p := range fn.Params {
		fr.env[p] = args[i]
	}
	for i, fv := range fn.FreeVars {
		fr.env[fv] = env[i]
	}
	for fr.block != nil {
		runFrame(fr)
	}
	return fr.result
}

func runFrame(fr *frame) {
	defer func() {
		if fr.block == nil {
			return // normal return
		}
		r := recover()
		if isEnginePanic(r) {
			panic(r)
		}
		fr.panicking = true
		fr.panic = r
		if fr.i.panicSite == "" && fr.fn != nil {
			fr.i.panicSite = fr.fn.String() // innermost interpreted function that saw the panic
		}
		fr.runDefers()
		fr.block = fr.fn.Recover
		if fr.block == nil {
			// recovered in a function without named results: return zero values
			fr.result = zero(fr.fn.Signature.Results())
			if fr.fn.Signature.Results().Len() == 0 {
				fr.result = nil
			}
		}
	}()

	for {
		nonPhis := executePhis(fr)
		for _, instr := range nonPhis {
			fr.i.steps++
			if fr.i.steps > fr.i.opts.MaxSteps {
				panic(pathEnd{kind: BoundExceeded, msg: fmt.Sprintf("step budget %d exceeded in %s", fr.i.opts.MaxSteps, fr.fn)})
			}
			if fr.i.dead {
				panic(killed{})
			}
			if visitInstr(fr, instr) == kReturn {
				return
			}
		}
	}
}

func executePhis(fr *frame) []ssa.Instruction {
	firstNonPhi := -1
	for i, instr := range fr.block.Instrs {
		if _, ok := instr.(*ssa.Phi); !ok {
			firstNonPhi = i
			break
		}
	}
	nonPhis := fr.block.Instrs[firstNonPhi:]
	if firstNonPhi > 0 {
		phis := fr.block.Instrs[:firstNonPhi]
		predIndex := slices.Index(fr.block.Preds, fr.prevBlock)
		fr.phitemps = fr.phitemps[:0]
		for _, phi := range phis {
			phi := phi.(*ssa.Phi)
			fr.phitemps = append(fr.phitemps, fr.get(phi.Edges[predIndex]))
		}
		for i, phi := range phis {
			fr.env[phi.(*ssa.Phi)] = fr.phitemps[i]
		}
	}
	return nonPhis
}

func doRecover(caller *frame) value {
	if caller != nil && !caller.panicking &&
		caller.caller != nil && caller.caller.panicking {
		caller.caller.panicking = false
		p := caller.caller.panic
		caller.caller.panic = nil
		switch p := p.(type) {
		case targetPanic:
			return p.v
		default:
			panic(engineErr(fmt.Sprintf("unexpected panic type %T in target call to recover()", p)))
		}
	}
	return iface{}
}

var nativeCodePtr = reflect.ValueOf(nativeFn("probe", func() {})).Pointer()

// isNativeOnly: the intrinsic is the plain reflection wrapper around the host function (no symbolic model).
func isNativeOnly(f intrinsic) bool { return reflect.ValueOf(f).Pointer() == nativeCodePtr }

func anySymbolic(args []value) bool {
	for _, a := range args {
		if isSym(a) {
			return true
		}
		if sl, ok := a.([]value); ok {
			for _, e := range sl {
				if isSym(e) {
					return true
				}
			}
		}
	}
	return false
}

// stdBody makes sure the SSA body of a library function is built; false if it has none (assembly, linkname).
func (i *interpreter) stdBody(fn *ssa.Function) bool {
	if fn.Blocks == nil && fn.Pkg != nil {
		i.run.buildMu.Lock()
		fn.Pkg.Build()
		i.run.buildMu.Unlock()
	}
	return fn.Blocks != nil
}
