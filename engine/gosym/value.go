package gosym

// Value representation, adapted from golang.org/x/tools/go/ssa/interp
// (BSD-style licence, The Go Authors): every interpreter value is boxed in the
// empty interface. Additions: sym (symbolic scalar carrying an SMT term),
// symstr (string with symbolic pieces), *omap (insertion-ordered map),
// *channel (engine-scheduled channel), native (opaque host object).
//
// - bool, int.., uint.., float64, string     concrete scalars
// - sym                                      symbolic bool / integer / float64
// - symstr                                   string with symbolic pieces
// - *omap, *channel, []value, iface, structure, array, *value, tuple
// - *ssa.Function, *ssa.Builtin, *closure

import (
	"bytes"
	"fmt"
	"go/types"
	"math"
	"unsafe"

	"golang.org/x/tools/go/ssa"
)

type value interface{}

type tuple []value

type array []value

type iface struct {
	t types.Type // never an "untyped" type
	v value
}

type structure []value

type iter interface {
	next(fr *frame) tuple
}

type closure struct {
	Fn  *ssa.Function
	Env []value
}

type bad struct{}

// native wraps an opaque host object handled only by intrinsics.
type native struct{ v interface{} }

// sym is a symbolic scalar of Go basic kind k.
type sym struct {
	t *Term
	k types.BasicKind
}

func basicKind(t types.Type) types.BasicKind {
	if b, ok := t.Underlying().(*types.Basic); ok {
		k := b.Kind()
		switch k {
		case types.UntypedBool:
			return types.Bool
		case types.UntypedInt:
			return types.Int
		case types.UntypedRune:
			return types.Int32
		case types.UntypedFloat:
			return types.Float64
		case types.UntypedString:
			return types.String
		}
		return k
	}
	return types.Invalid
}

func kindSort(k types.BasicKind) Sort {
	switch k {
	case types.Bool:
		return SBool
	case types.Int8, types.Uint8:
		return SBV8
	case types.Int16, types.Uint16:
		return SBV16
	case types.Int32, types.Uint32:
		return SBV32
	case types.Int, types.Int64, types.Uint, types.Uint64, types.Uintptr:
		return SBV64
	case types.Float64:
		return SFP64
	}
	panic(engineErr(fmt.Sprintf("kindSort: unsupported basic kind %v", k)))
}

func kindSigned(k types.BasicKind) bool {
	switch k {
	case types.Int, types.Int8, types.Int16, types.Int32, types.Int64:
		return true
	}
	return false
}

func kindIsInt(k types.BasicKind) bool {
	switch k {
	case types.Int, types.Int8, types.Int16, types.Int32, types.Int64,
		types.Uint, types.Uint8, types.Uint16, types.Uint32, types.Uint64, types.Uintptr:
		return true
	}
	return false
}

// goKind returns the basic kind of a concrete scalar value.
func goKind(v value) types.BasicKind {
	switch v.(type) {
	case bool:
		return types.Bool
	case int:
		return types.Int
	case int8:
		return types.Int8
	case int16:
		return types.Int16
	case int32:
		return types.Int32
	case int64:
		return types.Int64
	case uint:
		return types.Uint
	case uint8:
		return types.Uint8
	case uint16:
		return types.Uint16
	case uint32:
		return types.Uint32
	case uint64:
		return types.Uint64
	case uintptr:
		return types.Uintptr
	case float64:
		return types.Float64
	case string:
		return types.String
	case sym:
		return v.(sym).k
	}
	return types.Invalid
}

// bitsOf returns the raw bits of a concrete scalar.
func bitsOf(v value) uint64 {
	switch x := v.(type) {
	case bool:
		if x {
			return 1
		}
		return 0
	case int:
		return uint64(x)
	case int8:
		return uint64(uint8(x))
	case int16:
		return uint64(uint16(x))
	case int32:
		return uint64(uint32(x))
	case int64:
		return uint64(x)
	case uint:
		return uint64(x)
	case uint8:
		return uint64(x)
	case uint16:
		return uint64(x)
	case uint32:
		return uint64(x)
	case uint64:
		return x
	case uintptr:
		return uint64(x)
	case float64:
		return math.Float64bits(x)
	}
	panic(engineErr(fmt.Sprintf("bitsOf(%T)", v)))
}

// fromBits builds the concrete Go value of kind k from raw bits.
func fromBits(k types.BasicKind, b uint64) value {
	switch k {
	case types.Bool:
		return b&1 == 1
	case types.Int:
		return int(b)
	case types.Int8:
		return int8(b)
	case types.Int16:
		return int16(b)
	case types.Int32:
		return int32(b)
	case types.Int64:
		return int64(b)
	case types.Uint:
		return uint(b)
	case types.Uint8:
		return uint8(b)
	case types.Uint16:
		return uint16(b)
	case types.Uint32:
		return uint32(b)
	case types.Uint64:
		return b
	case types.Uintptr:
		return uintptr(b)
	case types.Float64:
		return math.Float64frombits(b)
	}
	panic(engineErr(fmt.Sprintf("fromBits kind %v", k)))
}

// termOf returns the SMT term of a scalar (concrete or symbolic).
func termOf(v value) *Term {
	if s, ok := v.(sym); ok {
		return s.t
	}
	k := goKind(v)
	return Const(kindSort(k), bitsOf(v))
}

// mkval wraps a term as a value of kind k, returning a concrete Go value if constant.
func mkval(t *Term, k types.BasicKind) value {
	if t.op == OpConst {
		return fromBits(k, t.val)
	}
	return sym{t, k}
}

func isSym(v value) bool {
	switch v.(type) {
	case sym, symstr:
		return true
	}
	return false
}

// ---- equality ----

func sameType(x, y types.Type) bool {
	if x == nil {
		return y == nil
	}
	return y != nil && types.Identical(x, y)
}

// eqTerm returns the Bool term for x == y (Go semantics) of static type t.
// Panics (target panic) on uncomparable dynamic types, like Go.
func eqTerm(t types.Type, x, y value) *Term {
	switch x := x.(type) {
	case bool, int, int8, int16, int32, int64, uint, uint8, uint16, uint32, uint64, uintptr:
		if ys, ok := y.(sym); ok {
			return Eq(termOf(x), ys.t)
		}
		return BoolT(x == y)
	case float64:
		if ys, ok := y.(sym); ok {
			return Cmp(OpFEq, termOf(x), ys.t)
		}
		return BoolT(x == y.(float64))
	case sym:
		if x.k == types.Float64 {
			return Cmp(OpFEq, x.t, termOf(y))
		}
		return Eq(x.t, termOf(y))
	case string:
		if ys, ok := y.(symstr); ok {
			return strEqTerm(symstrOf(x), ys)
		}
		return BoolT(x == y.(string))
	case symstr:
		return strEqTerm(x, symstrOf(y))
	case *value:
		return BoolT(x == y.(*value))
	case *channel:
		return BoolT(x == y.(*channel))
	case *omap:
		return BoolT(x == y.(*omap))
	case native:
		yn, ok := y.(native)
		return BoolT(ok && x.v == yn.v)
	case structure:
		y := y.(structure)
		ts := t.Underlying().(*types.Struct)
		r := TTrue
		for i := range x {
			if f := ts.Field(i); f.Name() != "_" {
				r = And(r, eqTerm(f.Type(), x[i], y[i]))
			}
		}
		return r
	case array:
		y := y.(array)
		te := t.Underlying().(*types.Array).Elem()
		r := TTrue
		for i := range x {
			r = And(r, eqTerm(te, x[i], y[i]))
		}
		return r
	case iface:
		y := y.(iface)
		if !sameType(x.t, y.t) {
			return TFalse
		}
		if x.t == nil {
			return TTrue
		}
		return eqTerm(x.t, x.v, y.v)
	}
	panic(targetPanic{rtErr("runtime error: comparing uncomparable type " + t.String())})
}

// hashable reports whether v (concrete) can key a Go map directly.
func hashKey(v value) (interface{}, bool) {
	switch x := v.(type) {
	case bool, int, int8, int16, int32, int64, uint, uint8, uint16, uint32, uint64, uintptr, float64, string, *value, *channel:
		return x, true
	}
	return nil, false
}

// ---- load / store (structs and arrays are copied) ----

func load(T types.Type, addr *value) value {
	if n, ok := (*addr).(native); ok {
		return n // opaque host object standing for an external struct value
	}
	switch T := T.Underlying().(type) {
	case *types.Struct:
		v := (*addr).(structure)
		a := make(structure, len(v))
		for i := range a {
			a[i] = load(T.Field(i).Type(), &v[i])
		}
		return a
	case *types.Array:
		v := (*addr).(array)
		a := make(array, len(v))
		for i := range a {
			a[i] = load(T.Elem(), &v[i])
		}
		return a
	default:
		return *addr
	}
}

func store(T types.Type, addr *value, v value) {
	if _, ok := v.(native); ok {
		*addr = v
		return
	}
	switch T := T.Underlying().(type) {
	case *types.Struct:
		lhs := (*addr).(structure)
		rhs := v.(structure)
		for i := range lhs {
			store(T.Field(i).Type(), &lhs[i], rhs[i])
		}
	case *types.Array:
		lhs := (*addr).(array)
		rhs := v.(array)
		for i := range lhs {
			store(T.Elem(), &lhs[i], rhs[i])
		}
	default:
		*addr = v
	}
}

// copyVal makes an unaliased copy of a struct/array value (others are immutable or references).
func copyVal(v value) value {
	switch x := v.(type) {
	case structure:
		a := make(structure, len(x))
		for i := range x {
			a[i] = copyVal(x[i])
		}
		return a
	case array:
		a := make(array, len(x))
		for i := range x {
			a[i] = copyVal(x[i])
		}
		return a
	}
	return v
}

// zero returns the zero value of type t.
func zero(t types.Type) value {
	switch t := t.(type) {
	case *types.Basic:
		if t.Kind() == types.UntypedNil {
			panic(engineErr("untyped nil has no zero value"))
		}
		if t.Info()&types.IsUntyped != 0 {
			t = types.Default(t).(*types.Basic)
		}
		switch t.Kind() {
		case types.Bool:
			return false
		case types.Int:
			return int(0)
		case types.Int8:
			return int8(0)
		case types.Int16:
			return int16(0)
		case types.Int32:
			return int32(0)
		case types.Int64:
			return int64(0)
		case types.Uint:
			return uint(0)
		case types.Uint8:
			return uint8(0)
		case types.Uint16:
			return uint16(0)
		case types.Uint32:
			return uint32(0)
		case types.Uint64:
			return uint64(0)
		case types.Uintptr:
			return uintptr(0)
		case types.Float32:
			return float32(0)
		case types.Float64:
			return float64(0)
		case types.String:
			return ""
		case types.UnsafePointer:
			return unsafe.Pointer(nil)
		default:
			panic(engineErr(fmt.Sprint("zero for unexpected type:", t)))
		}
	case *types.Pointer:
		return (*value)(nil)
	case *types.Array:
		a := make(array, t.Len())
		for i := range a {
			a[i] = zero(t.Elem())
		}
		return a
	case *types.Named:
		return zero(t.Underlying())
	case *types.Alias:
		return zero(types.Unalias(t))
	case *types.Interface:
		return iface{}
	case *types.Slice:
		return []value(nil)
	case *types.Struct:
		s := make(structure, t.NumFields())
		for i := range s {
			s[i] = zero(t.Field(i).Type())
		}
		return s
	case *types.Tuple:
		if t.Len() == 1 {
			return zero(t.At(0).Type())
		}
		s := make(tuple, t.Len())
		for i := range s {
			s[i] = zero(t.At(i).Type())
		}
		return s
	case *types.Chan:
		return (*channel)(nil)
	case *types.Map:
		return (*omap)(nil)
	case *types.Signature:
		return (*ssa.Function)(nil)
	}
	panic(engineErr(fmt.Sprint("zero: unexpected ", t)))
}

// ---- printing (debug / samples) ----

func writeValue(buf *bytes.Buffer, v value, depth int) {
	if depth > 6 {
		buf.WriteString("…")
		return
	}
	switch v := v.(type) {
	case nil, bool, int, int8, int16, int32, int64, uint, uint8, uint16, uint32, uint64, uintptr, float32, float64:
		fmt.Fprintf(buf, "%v", v)
	case string:
		fmt.Fprintf(buf, "%q", v)
	case sym:
		buf.WriteString(v.t.String())
	case symstr:
		buf.WriteString(v.String())
	case *omap:
		buf.WriteString("map[")
		if v != nil {
			for i, e := range v.live() {
				if i > 0 {
					buf.WriteString(" ")
				}
				writeValue(buf, e.k, depth+1)
				buf.WriteString(":")
				writeValue(buf, e.v, depth+1)
			}
		}
		buf.WriteString("]")
	case *channel:
		fmt.Fprintf(buf, "chan@%p", v)
	case *value:
		if v == nil {
			buf.WriteString("<nil>")
		} else {
			buf.WriteString("&")
			writeValue(buf, *v, depth+1)
		}
	case iface:
		if v.t == nil {
			buf.WriteString("nil")
			return
		}
		fmt.Fprintf(buf, "(%s, ", v.t)
		writeValue(buf, v.v, depth+1)
		buf.WriteString(")")
	case structure:
		buf.WriteString("{")
		for i, e := range v {
			if i > 0 {
				buf.WriteString(" ")
			}
			writeValue(buf, e, depth+1)
		}
		buf.WriteString("}")
	case array:
		buf.WriteString("[")
		for i, e := range v {
			if i > 0 {
				buf.WriteString(" ")
			}
			writeValue(buf, e, depth+1)
		}
		buf.WriteString("]")
	case []value:
		buf.WriteString("[")
		for i, e := range v {
			if i > 0 {
				buf.WriteString(" ")
			}
			writeValue(buf, e, depth+1)
		}
		buf.WriteString("]")
	case *ssa.Function:
		if v == nil {
			buf.WriteString("nilfunc")
		} else {
			buf.WriteString(v.String())
		}
	case *ssa.Builtin, *closure:
		fmt.Fprintf(buf, "%p", v)
	case tuple:
		buf.WriteString("(")
		for i, e := range v {
			if i > 0 {
				buf.WriteString(", ")
			}
			writeValue(buf, e, depth+1)
		}
		buf.WriteString(")")
	case native:
		fmt.Fprintf(buf, "native(%T)", v.v)
	default:
		fmt.Fprintf(buf, "<%T>", v)
	}
}

func toString(v value) string {
	var b bytes.Buffer
	writeValue(&b, v, 0)
	return b.String()
}
