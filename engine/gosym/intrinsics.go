package gosym

// Models of everything outside the repository's own packages, and the harness
// API. Each entry is part of every claim that runs through it (DESIGN §1.3).

import (
	"fmt"
	"go/types"
	"math"
	"reflect"
	"sort"
	"strconv"
	"strings"
	"unicode"
	"unicode/utf8"

	"github.com/agnivade/levenshtein"
	"golang.org/x/text/cases"
	"golang.org/x/text/language"
	"golang.org/x/text/unicode/norm"
	"golang.org/x/tools/go/ssa"
)

type intrinsic func(fr *frame, args []value) value

// intrinsics replace functions outside the repo packages (keyed by ssa.Function.String()).
var intrinsics = map[string]intrinsic{}

// overrides replace functions inside repo packages (the harness API).
var overrides = map[string]intrinsic{}

// interpretOK lists external functions that are simple enough to interpret directly.
var interpretOK = map[string]bool{
	"(*errors.errorString).Error":       true,
	"(runtime.errorString).Error":       true,
	"(*runtime.errorString).Error":      true,
	"(runtime.errorString).RuntimeError": true,
}

var externalGlobals = map[string]value{}

func needConcrete(what string, vs ...value) {
	for _, v := range vs {
		if isSym(v) {
			panic(pathEnd{kind: Inconclusive, msg: "symbolic argument to " + what})
		}
	}
}

// ---- value <-> host conversion for native calls ----

func toHost(v value, t reflect.Type, what string) reflect.Value {
	switch t.Kind() {
	case reflect.String:
		s, ok := v.(string)
		if !ok {
			panic(pathEnd{kind: Inconclusive, msg: "symbolic string argument to " + what})
		}
		return reflect.ValueOf(s).Convert(t)
	case reflect.Bool, reflect.Int, reflect.Int8, reflect.Int16, reflect.Int32, reflect.Int64,
		reflect.Uint, reflect.Uint8, reflect.Uint16, reflect.Uint32, reflect.Uint64, reflect.Float64:
		if isSym(v) {
			panic(pathEnd{kind: Inconclusive, msg: "symbolic scalar argument to " + what})
		}
		return reflect.ValueOf(v).Convert(t)
	case reflect.Slice:
		sl, ok := v.([]value)
		if !ok {
			panic(engineErr("toHost slice from " + fmt.Sprintf("%T", v)))
		}
		out := reflect.MakeSlice(t, len(sl), len(sl))
		for i, e := range sl {
			out.Index(i).Set(toHost(e, t.Elem(), what))
		}
		if sl == nil {
			return reflect.Zero(t)
		}
		return out
	}
	panic(engineErr(fmt.Sprintf("toHost: unsupported parameter type %v in %s", t, what)))
}

func fromHost(fr *frame, rv reflect.Value) value {
	switch rv.Kind() {
	case reflect.String:
		return rv.String()
	case reflect.Bool:
		return rv.Bool()
	case reflect.Int:
		return int(rv.Int())
	case reflect.Int8:
		return int8(rv.Int())
	case reflect.Int16:
		return int16(rv.Int())
	case reflect.Int32:
		return int32(rv.Int())
	case reflect.Int64:
		return rv.Int()
	case reflect.Uint:
		return uint(rv.Uint())
	case reflect.Uint8:
		return uint8(rv.Uint())
	case reflect.Uint16:
		return uint16(rv.Uint())
	case reflect.Uint32:
		return uint32(rv.Uint())
	case reflect.Uint64:
		return rv.Uint()
	case reflect.Float64:
		return rv.Float()
	case reflect.Slice:
		if rv.IsNil() {
			return []value(nil)
		}
		out := make([]value, rv.Len())
		for i := range out {
			out[i] = fromHost(fr, rv.Index(i))
		}
		return out
	case reflect.Interface:
		if rv.IsNil() {
			return iface{}
		}
		if e, ok := rv.Interface().(error); ok {
			return makeError(fr.i, e.Error())
		}
	}
	panic(engineErr(fmt.Sprintf("fromHost: unsupported result type %v", rv.Type())))
}

// nativeFn wraps a host function whose parameters/results are scalars, strings and slices of them.
func nativeFn(name string, f interface{}) intrinsic {
	fv := reflect.ValueOf(f)
	ft := fv.Type()
	return func(fr *frame, args []value) value {
		in := make([]reflect.Value, len(args))
		for i, a := range args {
			var pt reflect.Type
			if ft.IsVariadic() && i >= ft.NumIn()-1 {
				pt = ft.In(ft.NumIn() - 1)
				if i == ft.NumIn()-1 {
					// ssa passes the variadic slice as one argument
					in[i] = toHost(a, pt, name)
					continue
				}
			} else {
				pt = ft.In(i)
			}
			in[i] = toHost(a, pt, name)
		}
		var outs []reflect.Value
		if ft.IsVariadic() {
			outs = fv.CallSlice(in)
		} else {
			outs = fv.Call(in)
		}
		switch len(outs) {
		case 0:
			return nil
		case 1:
			return fromHost(fr, outs[0])
		}
		t := make(tuple, len(outs))
		for i, o := range outs {
			t[i] = fromHost(fr, o)
		}
		return t
	}
}

func makeError(i *interpreter, msg string) value {
	ep := i.prog.ImportedPackage("errors")
	if ep == nil {
		panic(engineErr("package errors not loaded"))
	}
	t := ep.Type("errorString").Object().Type()
	var st value = structure{msg}
	return iface{t: types.NewPointer(t), v: &st}
}

// errorText runs the Error method of an interpreted error value.
func errorText(fr *frame, e value) value {
	it := e.(iface)
	if it.t == nil {
		return "<nil>"
	}
	return callMethod(fr, it, "Error")
}

func callMethod(fr *frame, it iface, name string) value {
	ms := fr.i.prog.MethodSets.MethodSet(it.t)
	for k := 0; k < ms.Len(); k++ {
		sel := ms.At(k)
		if sel.Obj().Name() == name {
			fn := fr.i.prog.MethodValue(sel)
			return call(fr.i, fr, 0, fn, []value{it.v})
		}
	}
	return nil
}

func hasMethod(fr *frame, t types.Type, name string) bool {
	ms := fr.i.prog.MethodSets.MethodSet(t)
	for k := 0; k < ms.Len(); k++ {
		if ms.At(k).Obj().Name() == name {
			sig := ms.At(k).Type().(*types.Signature)
			return sig.Params().Len() == 0 && sig.Results().Len() == 1 && basicKind(sig.Results().At(0).Type()) == types.String
		}
	}
	return false
}

// ---- fmt ----

// fmtArg converts an interface argument for host formatting. Symbolic values
// are returned as pieces through sympiece.
type fmtWrap struct {
	s string // result of String()/Error()
	u interface{}
}

func (w fmtWrap) Format(f fmt.State, verb rune) {
	switch verb {
	case 'v', 's':
		fmt.Fprint(f, w.s)
	case 'q':
		fmt.Fprintf(f, "%q", w.s)
	default:
		fmt.Fprintf(f, fmt.FormatString(f, verb), w.u)
	}
}

// hostFmtArg renders an interpreter value as a host value for fmt.
func hostFmtArg(fr *frame, v value) (interface{}, *spiece) {
	it, ok := v.(iface)
	if !ok {
		return hostPlain(fr, nil, v)
	}
	if it.t == nil {
		return nil, nil
	}
	if _, isN := it.v.(native); isN {
		return it.v.(native).v, nil
	}
	if !isSym(it.v) {
		if hasMethod(fr, it.t, "Error") {
			s := callMethod(fr, it, "Error")
			if ss, ok := s.(string); ok {
				u, _ := hostPlain(fr, it.t, it.v)
				return fmtWrap{ss, u}, nil
			}
			if ss, ok := s.(symstr); ok {
				return nil, &spiece{k: pkSplice, sub: ss.p}
			}
			return nil, &spiece{k: pkOpaque, s: "error-text"}
		}
		if hasMethod(fr, it.t, "String") {
			s := callMethod(fr, it, "String")
			if ss, ok := s.(string); ok {
				u, _ := hostPlain(fr, it.t, it.v)
				return fmtWrap{ss, u}, nil
			}
			if ss, ok := s.(symstr); ok {
				return nil, &spiece{k: pkSplice, sub: ss.p} // text produced by the value's own String method (%s / %v)
			}
		}
	}
	return hostPlain(fr, it.t, it.v)
}

func hostPlain(fr *frame, t types.Type, v value) (interface{}, *spiece) {
	switch x := v.(type) {
	case bool, int, int8, int16, int32, int64, uint, uint8, uint16, uint32, uint64, uintptr, float64, string:
		return x, nil
	case sym:
		switch {
		case x.k == types.Float64:
			return nil, &spiece{k: pkFtoa, t: x.t}
		case x.k == types.Bool:
			if fr.branch(x.t) {
				return true, nil
			}
			return false, nil
		case kindSigned(x.k):
			return nil, &spiece{k: pkItoa, t: Mk(OpSExt, SBV64, x.t)}
		default:
			return nil, &spiece{k: pkUtoa, t: Mk(OpZExt, SBV64, x.t)}
		}
	case symstr:
		return nil, &spiece{k: pkOpaque, s: "symstr"}
	case []value:
		out := make([]interface{}, len(x))
		for i, e := range x {
			h, p := hostFmtArg(fr, e)
			if p != nil {
				return nil, &spiece{k: pkOpaque, s: "slice"}
			}
			out[i] = h
		}
		return out, nil
	case *value:
		if x == nil {
			return nil, nil
		}
		return fmt.Sprintf("&%s", toString(*x)), nil
	case structure:
		return toString(x), nil
	case iface:
		return hostFmtArg(fr, x)
	case *omap:
		return toString(x), nil
	case native:
		return x.v, nil
	}
	return toString(v), nil
}

// sprintf formats with symbolic arguments becoming pieces.
func sprintf(fr *frame, format string, args []value) value {
	var ps []spiece
	lit := func(s string) {
		if s != "" {
			ps = append(ps, spiece{k: pkBytes, s: s})
		}
	}
	ai := 0
	for len(format) > 0 {
		p := strings.IndexByte(format, '%')
		if p < 0 {
			lit(format)
			break
		}
		lit(format[:p])
		format = format[p:]
		// parse verb
		j := 1
		for j < len(format) && strings.IndexByte("+-# 0123456789.*[]", format[j]) >= 0 {
			j++
		}
		if j >= len(format) {
			lit(format)
			break
		}
		verb := format[j]
		spec := format[:j+1]
		format = format[j+1:]
		if verb == '%' {
			lit("%")
			continue
		}
		if ai >= len(args) {
			lit("%!" + string(verb) + "(MISSING)")
			continue
		}
		a := args[ai]
		ai++
		// symbolic?
		var inner value = a
		if it, ok := a.(iface); ok {
			inner = it.v
		}
		switch x := inner.(type) {
		case sym:
			if spec == "%c" && kindIsInt(x.k) {
				t := x.t
				if t.sort.Width() > 32 {
					t = Mk(OpTrunc, SBV32, t)
				} else if t.sort.Width() < 32 {
					t = Mk(OpZExt, SBV32, t)
				}
				ps = append(ps, symstrOf(runeToString(fr, t)).p...)
				continue
			}
			if spec == "%d" || spec == "%v" || (spec == "%t" && x.k == types.Bool) {
				h, sp := hostPlain(fr, nil, x)
				if sp != nil {
					ps = append(ps, *sp)
				} else {
					lit(fmt.Sprintf(spec, h))
				}
				continue
			}
			ps = append(ps, spiece{k: pkOpaque, s: spec + ":" + x.t.String()})
			continue
		case symstr:
			if spec == "%s" || spec == "%v" {
				ps = append(ps, x.p...)
				continue
			}
			ps = append(ps, spiece{k: pkOpaque, s: spec + ":" + x.String()})
			continue
		}
		if st, ok := inner.(structure); ok {
			if it, isI := a.(iface); !isI || !(hasMethod(fr, it.t, "String") || hasMethod(fr, it.t, "Error")) {
				// fmt renders a struct as {f1 f2 ...}, applying the verb to each field
				lit("{")
				for k, f := range st {
					if k > 0 {
						lit(" ")
					}
					sub := sprintf(fr, spec, []value{f})
					ps = append(ps, symstrOf(sub).p...)
				}
				lit("}")
				continue
			}
		}
		h, sp := hostFmtArg(fr, a)
		if sp != nil {
			ps = append(ps, *sp)
			continue
		}
		lit(fmt.Sprintf(spec, h))
	}
	for ; ai < len(args); ai++ {
		lit("%!(EXTRA)")
	}
	return normStr(ps)
}

func sprint(fr *frame, args []value, ln bool) value {
	var ps []spiece
	prevString := true
	for k, a := range args {
		var inner value = a
		if it, ok := a.(iface); ok {
			inner = it.v
		}
		_, isStr := inner.(string)
		_, isSS := inner.(symstr)
		isStr = isStr || isSS
		if ln && k > 0 {
			ps = append(ps, spiece{k: pkBytes, s: " "})
		} else if !ln && k > 0 && !isStr && !prevString {
			ps = append(ps, spiece{k: pkBytes, s: " "})
		}
		prevString = isStr
		switch x := inner.(type) {
		case symstr:
			ps = append(ps, x.p...)
			continue
		case sym:
			h, p := hostPlain(fr, nil, x)
			if p != nil {
				ps = append(ps, *p)
			} else {
				ps = append(ps, spiece{k: pkBytes, s: fmt.Sprint(h)})
			}
			continue
		}
		h, p := hostFmtArg(fr, a)
		if p != nil {
			ps = append(ps, *p)
			continue
		}
		ps = append(ps, spiece{k: pkBytes, s: fmt.Sprint(h)})
	}
	if ln {
		ps = append(ps, spiece{k: pkBytes, s: "\n"})
	}
	return normStr(ps)
}

// ---- registration ----

func strArg(v value, what string) string {
	s, ok := v.(string)
	if !ok {
		panic(pathEnd{kind: Inconclusive, msg: "symbolic string argument to " + what})
	}
	return s
}

// mapRunePieces applies f to concrete bytes and g to each symbolic rune piece.
func init() {
	I := intrinsics
	for name, f := range map[string]interface{}{
		"strings.Repeat": strings.Repeat, "strings.Split": strings.Split, "strings.Join": strings.Join,
		"strings.Contains": strings.Contains, "strings.HasPrefix": strings.HasPrefix, "strings.HasSuffix": strings.HasSuffix,
		"strings.ToLower": strings.ToLower, "strings.ToUpper": strings.ToUpper, "strings.TrimSpace": strings.TrimSpace,
		"strings.Index": strings.Index, "strings.LastIndex": strings.LastIndex, "strings.Replace": strings.Replace,
		"strings.TrimPrefix": strings.TrimPrefix, "strings.TrimSuffix": strings.TrimSuffix, "strings.Trim": strings.Trim,
		"strings.TrimLeft": strings.TrimLeft, "strings.TrimRight": strings.TrimRight, "strings.Fields": strings.Fields,
		"strings.Count": strings.Count, "strings.EqualFold": strings.EqualFold, "strings.IndexByte": strings.IndexByte,
		"strings.IndexRune": strings.IndexRune, "strings.ContainsRune": strings.ContainsRune, "strings.SplitN": strings.SplitN,
		"strings.Title": strings.Title, "strings.ContainsAny": strings.ContainsAny, "strings.Compare": strings.Compare,
		"strconv.Itoa": strconv.Itoa, "strconv.Quote": strconv.Quote, "strconv.FormatInt": strconv.FormatInt,
		"strconv.FormatFloat": strconv.FormatFloat, "strconv.FormatBool": strconv.FormatBool,
		"strconv.ParseInt": strconv.ParseInt, "strconv.ParseFloat": strconv.ParseFloat, "strconv.ParseBool": strconv.ParseBool,
		"strconv.ParseUint": strconv.ParseUint, "strconv.Atoi": strconv.Atoi, "strconv.Unquote": strconv.Unquote,
		"unicode/utf8.RuneCountInString": utf8.RuneCountInString, "unicode/utf8.RuneLen": utf8.RuneLen,
		"unicode/utf8.ValidString": utf8.ValidString, "unicode/utf8.RuneCount": utf8.RuneCount,
		"unicode.IsLetter": unicode.IsLetter, "unicode.IsDigit": unicode.IsDigit, "unicode.IsSpace": unicode.IsSpace,
		"unicode.IsUpper": unicode.IsUpper, "unicode.IsLower": unicode.IsLower, "unicode.ToUpper": unicode.ToUpper, "unicode.ToLower": unicode.ToLower,
		"math.Pow": math.Pow, "math.Trunc": math.Trunc, "math.Round": math.Round, "math.Floor": math.Floor, "math.Ceil": math.Ceil,
		"math.IsNaN": math.IsNaN, "math.IsInf": math.IsInf, "math.Abs": math.Abs, "math.Sqrt": math.Sqrt, "math.Mod": math.Mod,
		"math.Inf": math.Inf, "math.NaN": math.NaN, "math.Log": math.Log, "math.Max": math.Max, "math.Min": math.Min,
		"math.Float64bits": math.Float64bits, "math.Float64frombits": math.Float64frombits,
	} {
		I[name] = nativeFn(name, f)
	}

	// symbolic-aware refinements
	symFloat1 := func(name string, op Op, host intrinsic) {
		I[name] = func(fr *frame, args []value) value {
			if s, ok := args[0].(sym); ok {
				return mkval(Mk(op, SFP64, s.t), types.Float64)
			}
			return host(fr, args)
		}
	}
	symFloat1("math.Trunc", OpFTrunc, I["math.Trunc"])
	symFloat1("math.Round", OpFRound, I["math.Round"])
	symFloat1("math.Floor", OpFFloor, I["math.Floor"])
	symFloat1("math.Ceil", OpFCeil, I["math.Ceil"])
	symFloat1("math.Abs", OpFAbs, I["math.Abs"])
	hostIsNaN := I["math.IsNaN"]
	I["math.IsNaN"] = func(fr *frame, args []value) value {
		if s, ok := args[0].(sym); ok {
			return mkval(Mk(OpFIsNaN, SBool, s.t), types.Bool)
		}
		return hostIsNaN(fr, args)
	}
	hostIsInf := I["math.IsInf"]
	I["math.IsInf"] = func(fr *frame, args []value) value {
		if s, ok := args[0].(sym); ok {
			needConcrete("math.IsInf sign", args[1])
			sign := args[1].(int)
			inf := Mk(OpFIsInf, SBool, s.t)
			switch {
			case sign > 0:
				return mkval(And(inf, Cmp(OpFLt, FloatT(0), s.t)), types.Bool)
			case sign < 0:
				return mkval(And(inf, Cmp(OpFLt, s.t, FloatT(0))), types.Bool)
			}
			return mkval(inf, types.Bool)
		}
		return hostIsInf(fr, args)
	}
	hostPow := I["math.Pow"]
	I["math.Pow"] = func(fr *frame, args []value) value {
		if isSym(args[0]) || isSym(args[1]) {
			return mkval(UF("go_math_pow", SFP64, termOf(args[0]), termOf(args[1])), types.Float64)
		}
		return hostPow(fr, args)
	}

	I["fmt.Sprintf"] = func(fr *frame, args []value) value {
		return sprintf(fr, strArg(args[0], "fmt.Sprintf format"), args[1].([]value))
	}
	I["fmt.Sprint"] = func(fr *frame, args []value) value { return sprint(fr, args[0].([]value), false) }
	I["fmt.Sprintln"] = func(fr *frame, args []value) value { return sprint(fr, args[0].([]value), true) }
	I["fmt.Errorf"] = func(fr *frame, args []value) value {
		s := sprintf(fr, strings.ReplaceAll(strArg(args[0], "fmt.Errorf format"), "%w", "%v"), args[1].([]value))
		msg, ok := s.(string)
		if !ok {
			panic(pathEnd{kind: Inconclusive, msg: "fmt.Errorf with symbolic text"})
		}
		return makeError(fr.i, msg)
	}
	discard := func(fr *frame, args []value) value { return tuple{0, iface{}} }
	I["fmt.Printf"] = discard
	I["fmt.Println"] = discard
	I["fmt.Print"] = discard
	I["errors.New"] = func(fr *frame, args []value) value { return makeError(fr.i, strArg(args[0], "errors.New")) }
	I["log.Printf"] = func(fr *frame, args []value) value { return nil }
	I["log.Println"] = func(fr *frame, args []value) value { return nil }

	I["strings.ReplaceAll"] = func(fr *frame, args []value) value {
		s, sok := args[0].(symstr)
		if !sok {
			return strings.ReplaceAll(strArg(args[0], "ReplaceAll"), strArg(args[1], "ReplaceAll"), strArg(args[2], "ReplaceAll"))
		}
		old, nw := strArg(args[1], "ReplaceAll old"), strArg(args[2], "ReplaceAll new")
		if len(old) != 1 || old[0] >= 0x80 {
			panic(pathEnd{kind: Inconclusive, msg: "strings.ReplaceAll on symbolic string with multi-byte pattern"})
		}
		inNumber := strings.IndexByte("0123456789-+.eENaInf", old[0]) >= 0
		var ps []spiece
		for _, p := range s.p {
			switch p.k {
			case pkBytes:
				ps = append(ps, spiece{k: pkBytes, s: strings.ReplaceAll(p.s, old, nw)})
			case pkRune:
				if p.n == 1 && fr.branch(Eq(p.t, Const(SBV32, uint64(old[0])))) {
					ps = append(ps, spiece{k: pkBytes, s: nw})
				} else {
					ps = append(ps, p)
				}
			case pkItoa, pkUtoa, pkFtoa:
				if inNumber {
					panic(pathEnd{kind: Inconclusive, msg: "strings.ReplaceAll of a character that may occur in a formatted symbolic number"})
				}
				ps = append(ps, p)
			default:
				panic(pathEnd{kind: Inconclusive, msg: "strings.ReplaceAll on byte/opaque pieces"})
			}
		}
		return normStr(ps)
	}

	hostParseInt := I["strconv.ParseInt"]
	I["strconv.ParseInt"] = func(fr *frame, args []value) value {
		s, ok := args[0].(symstr)
		if !ok {
			return hostParseInt(fr, args)
		}
		needConcrete("strconv.ParseInt base/bitSize", args[1], args[2])
		base, bits := uint64(args[1].(int)), args[2].(int)
		if base != 8 && base != 10 && base != 16 || bits == 0 {
			panic(pathEnd{kind: Inconclusive, msg: "strconv.ParseInt on symbolic text with unusual base"})
		}
		acc := Const(SBV64, 0)
		ndig := 0
		bad := false
		digit := func(r *Term) *Term { // r: BV32 rune, returns BV64 digit value or nil
			c := func(v rune) *Term { return Const(SBV32, uint64(v)) }
			in := func(lo, hi rune) *Term { return And(Cmp(OpSle, c(lo), r), Cmp(OpSle, r, c(hi))) }
			w := func(t *Term) *Term { return Mk(OpZExt, SBV64, t) }
			top := rune('0' + base - 1)
			if base > 10 {
				top = '9'
			}
			if fr.branch(in('0', top)) {
				return w(Bin(OpSub, r, c('0')))
			}
			if base == 16 {
				if fr.branch(in('a', 'f')) {
					return w(Bin(OpSub, r, c('a'-10)))
				}
				if fr.branch(in('A', 'F')) {
					return w(Bin(OpSub, r, c('A'-10)))
				}
			}
			return nil
		}
		for pi, p := range s.p {
			switch p.k {
			case pkBytes:
				for bi := 0; bi < len(p.s); bi++ {
					if pi == 0 && bi == 0 && (p.s[0] == '+' || p.s[0] == '-' || p.s[0] == '_') {
						panic(pathEnd{kind: Inconclusive, msg: "strconv.ParseInt on signed symbolic text"})
					}
					d := digit(Const(SBV32, uint64(p.s[bi])))
					if d == nil {
						bad = true
						break
					}
					acc = Bin(OpAdd, Bin(OpMul, acc, Const(SBV64, base)), d)
					ndig++
				}
			case pkRune:
				if p.n != 1 {
					bad = true
					break
				}
				if pi == 0 {
					if fr.branch(Or(Eq(p.t, Const(SBV32, '+')), Eq(p.t, Const(SBV32, '-')))) {
						panic(pathEnd{kind: Inconclusive, msg: "strconv.ParseInt on signed symbolic text"})
					}
				}
				d := digit(p.t)
				if d == nil {
					bad = true
					break
				}
				acc = Bin(OpAdd, Bin(OpMul, acc, Const(SBV64, base)), d)
				ndig++
			default:
				panic(pathEnd{kind: Inconclusive, msg: "strconv.ParseInt on formatted pieces"})
			}
			if bad {
				break
			}
		}
		if bad || ndig == 0 {
			return tuple{int64(0), makeError(fr.i, "strconv.ParseInt: invalid syntax")}
		}
		maxDigits := map[uint64]int{8: 20, 10: 18, 16: 15}[base]
		if ndig > maxDigits {
			panic(pathEnd{kind: Inconclusive, msg: "strconv.ParseInt on symbolic text too long for exact 64-bit model"})
		}
		limit := uint64(1)<<(uint(bits)-1) - 1
		if fr.branch(Cmp(OpUlt, Const(SBV64, limit), acc)) {
			return tuple{int64(limit), makeError(fr.i, "strconv.ParseInt: value out of range")}
		}
		return tuple{mkval(acc, types.Int64), iface{}}
	}

	I["sort.Strings"] = func(fr *frame, args []value) value {
		sl := args[0].([]value)
		ss := make([]string, len(sl))
		for i, e := range sl {
			ss[i] = strArg(e, "sort.Strings")
		}
		sort.Strings(ss)
		for i := range sl {
			sl[i] = ss[i]
		}
		return nil
	}
	I["slices.Sort[[]string string]"] = I["sort.Strings"]

	I["time.Sleep"] = func(fr *frame, args []value) value {
		fr.i.yield(fr.g)
		return nil
	}
	I["runtime.Gosched"] = I["time.Sleep"]

	// sync
	recvPtr := func(v value) *value { return v.(*value) }
	I["(*sync.Mutex).Lock"] = func(fr *frame, a []value) value { mutexLock(fr, recvPtr(a[0]), true); return nil }
	I["(*sync.Mutex).Unlock"] = func(fr *frame, a []value) value { mutexUnlock(fr, recvPtr(a[0]), true); return nil }
	I["(*sync.RWMutex).Lock"] = I["(*sync.Mutex).Lock"]
	I["(*sync.RWMutex).Unlock"] = I["(*sync.Mutex).Unlock"]
	I["(*sync.RWMutex).RLock"] = func(fr *frame, a []value) value { mutexLock(fr, recvPtr(a[0]), false); return nil }
	I["(*sync.RWMutex).RUnlock"] = func(fr *frame, a []value) value { mutexUnlock(fr, recvPtr(a[0]), false); return nil }
	I["(*sync.WaitGroup).Add"] = func(fr *frame, a []value) value {
		p := recvPtr(a[0])
		w := fr.i.wgs[p]
		if w == nil {
			w = &wgState{}
			fr.i.wgs[p] = w
		}
		w.n += int(asInt64(a[1]))
		if asInt64(a[1]) < 0 {
			fr.i.hbRelease(fr.g, p)
		}
		if w.n < 0 {
			panic(targetPanic{iface{t: types.Typ[types.String], v: "sync: negative WaitGroup counter"}})
		}
		return nil
	}
	I["(*sync.WaitGroup).Done"] = func(fr *frame, a []value) value {
		return I["(*sync.WaitGroup).Add"](fr, []value{a[0], -1})
	}
	I["(*sync.WaitGroup).Wait"] = func(fr *frame, a []value) value {
		p := recvPtr(a[0])
		fr.i.block(fr.g, "WaitGroup.Wait", func() bool { w := fr.i.wgs[p]; return w == nil || w.n == 0 })
		fr.i.hbAcquire(fr.g, p)
		return nil
	}
}

// RegisterAPI installs the harness API overrides for the module's errors package.
func RegisterAPI(apiPkg string) {
	O := overrides
	// the repository's own scheduling-point hook (a no-op without the verif tag) is a yield of the engine's scheduler
	O[strings.TrimSuffix(apiPkg, "/errors")+"/runtime.verifSchedPoint"] = func(fr *frame, args []value) value {
		fr.i.yield(fr.g)
		return nil
	}
	nd := func(k types.BasicKind) intrinsic {
		return func(fr *frame, args []value) value {
			name := "nd_" + strArg(args[0], "Nd name")
			i := fr.i
			if _, dup := i.varKind[name]; dup {
				panic(engineErr("duplicate Nd variable name on one path: " + name))
			}
			v := Var(name, kindSort(k))
			i.vars = append(i.vars, v)
			i.varKind[name] = k
			return sym{v, k}
		}
	}
	p := apiPkg + "."
	O[p+"VerifNdInt64"] = nd(types.Int64)
	O[p+"VerifNdInt"] = nd(types.Int)
	O[p+"VerifNdUint"] = nd(types.Uint)
	O[p+"VerifNdUint64"] = nd(types.Uint64)
	O[p+"VerifNdRune"] = nd(types.Int32)
	O[p+"VerifNdByte"] = nd(types.Uint8)
	O[p+"VerifNdBool"] = nd(types.Bool)
	O[p+"VerifNdFloat64"] = nd(types.Float64)
	O[p+"VerifNdIntRange"] = func(fr *frame, args []value) value {
		name := strArg(args[0], "Nd name")
		lo, hi := args[1].(int), args[2].(int)
		if hi < lo {
			panic(engineErr("NdIntRange hi < lo"))
		}
		if v, ok := fr.i.run.cfg.Fixed[name]; ok {
			fr.i.ndVals[name] = fmt.Sprint(v)
			return v
		}
		c := fr.i.choose(hi-lo+1, name)
		fr.i.ndVals[name] = fmt.Sprint(lo + c)
		return lo + c
	}
	O[p+"VerifAssume"] = func(fr *frame, args []value) value {
		switch c := args[0].(type) {
		case bool:
			if !c {
				panic(pathEnd{kind: Pruned, msg: "assume false"})
			}
		case sym:
			fr.i.assume(c.t)
		}
		return nil
	}
	O[p+"VerifAssert"] = func(fr *frame, args []value) value {
		label := strArg(args[0], "Assert label")
		i := fr.i
		i.run.mu.Lock()
		i.run.res.Asserts++
		i.run.mu.Unlock()
		switch c := args[1].(type) {
		case bool:
			if !c {
				i.violation("assert", label, "assertion is false on this path", nil)
			}
		case sym:
			neg := Not(c.t)
			if v, ok := i.evalModel(c.t); ok && v == 0 {
				i.violation("assert", label, "assertion can be false", i.model)
			} else {
				i.run.mu.Lock()
				i.run.res.AssertQueries++
				i.run.mu.Unlock()
				switch i.check(neg) {
				case Sat:
					i.violation("assert", label, "assertion can be false", i.fetchModel())
				case Unknown:
					i.noteInconclusive("solver unknown on assertion " + label)
				}
			}
			// continue under the assertion
			if v, ok := i.evalModel(c.t); ok && v == 1 {
				i.addPC(c.t)
			} else {
				switch i.check(c.t) {
				case Sat:
					i.addPC(c.t)
					i.setModel(i.fetchModel())
				case Unsat:
					panic(pathEnd{kind: OK, msg: "assertion false on every continuation"})
				default:
					panic(pathEnd{kind: Inconclusive, msg: "solver unknown after assertion"})
				}
			}
		}
		return nil
	}
	O[p+"VerifTag"] = func(fr *frame, args []value) value {
		v := args[1]
		s, ok := v.(string)
		if !ok {
			s = toString(v)
		}
		fr.i.tags[strArg(args[0], "Tag key")] = s
		return nil
	}
	O[p+"VerifUntag"] = func(fr *frame, args []value) value {
		delete(fr.i.tags, strArg(args[0], "Tag key"))
		return nil
	}
	O[p+"VerifReached"] = func(fr *frame, args []value) value {
		fr.i.reached[strArg(args[0], "Reached label")] = true
		return nil
	}
	O[p+"VerifInconclusive"] = func(fr *frame, args []value) value {
		panic(pathEnd{kind: Inconclusive, msg: strArg(args[0], "Inconclusive msg")})
	}
	boolTerm := func(v value) *Term {
		if b, ok := v.(bool); ok {
			return BoolT(b)
		}
		return v.(sym).t
	}
	O[p+"VerifAnd"] = func(fr *frame, args []value) value {
		return mkval(And(boolTerm(args[0]), boolTerm(args[1])), types.Bool)
	}
	O[p+"VerifOr"] = func(fr *frame, args []value) value {
		return mkval(Or(boolTerm(args[0]), boolTerm(args[1])), types.Bool)
	}
	O[p+"VerifImplies"] = func(fr *frame, args []value) value {
		return mkval(Or(Not(boolTerm(args[0])), boolTerm(args[1])), types.Bool)
	}
	O[p+"VerifParam"] = func(fr *frame, args []value) value {
		if v, ok := fr.i.run.cfg.Params[strArg(args[0], "Param name")]; ok {
			return v
		}
		return args[1]
	}
	O[p+"VerifPanicSite"] = func(fr *frame, args []value) value {
		s := fr.i.panicSite
		if k := strings.LastIndex(s, "/homescript/"); k >= 0 {
			s = s[k+len("/homescript/"):]
		}
		return s
	}
	O[p+"VerifLiveGoroutines"] = func(fr *frame, args []value) value {
		// let every runnable goroutine run until it blocks or ends, then count the unfinished ones
		for k := 0; k < 64; k++ {
			if len(fr.i.runnable(fr.g)) == 0 {
				break
			}
			fr.i.yield(fr.g)
		}
		n := 0
		for _, g := range fr.i.gors {
			if !g.done && g != fr.g {
				n++
			}
		}
		return n + 1 // natively the caller itself (and the test runner) are counted: only differences are compared
	}
	O[p+"VerifStable"] = func(fr *frame, args []value) value {
		label := strArg(args[0], "Stable label")
		val, ok := args[1].(string)
		if !ok {
			panic(pathEnd{kind: Inconclusive, msg: "VerifStable on a symbolic value"})
		}
		r := fr.i.run
		r.mu.Lock()
		if r.stable == nil {
			r.stable = map[string]string{}
		}
		key := label
		for k, v := range fr.i.tags {
			if !strings.HasPrefix(k, "__") {
				key += "|" + k + "=" + v
			}
		}
		first, seen := r.stable[key]
		if !seen {
			r.stable[key] = val
		}
		r.mu.Unlock()
		if seen && first != val {
			fr.i.violation("unstable", label, fmt.Sprintf("two executions differ: %q vs %q", first, val), nil)
		}
		return nil
	}
	O[p+"VerifRandSource"] = func(fr *frame, args []value) value {
		return iface{t: types.NewPointer(types.Typ[types.Int]), v: native{&symRand{}}}
	}
	O[p+"VerifSteps"] = func(fr *frame, args []value) value { return fr.i.steps }
	O[p+"VerifIsSymbolic"] = func(fr *frame, args []value) value { return true }
	O[p+"VerifPanics"] = func(fr *frame, args []value) value {
		i := fr.i
		depth := i.depth
		i.panicSite = ""
		panicked, msg := false, ""
		func() {
			defer func() {
				r := recover()
				if r == nil {
					return
				}
				if tp, ok := r.(targetPanic); ok {
					panicked = true
					msg = tp.String()
					i.depth = depth
					return
				}
				panic(r)
			}()
			call(i, fr, 0, args[0], nil)
		}()
		return tuple{panicked, msg}
	}
}

var _ = ssa.NaiveForm

func callNativeMethod(fr *frame, m nativeMethod, args []value) value {
	rv := reflect.ValueOf(m.recv.v)
	mv := rv.MethodByName(m.name)
	if !mv.IsValid() {
		panic(engineErr(fmt.Sprintf("native object %T has no method %s", m.recv.v, m.name)))
	}
	return nativeFn(fmt.Sprintf("%T.%s", m.recv.v, m.name), mv.Interface())(fr, args)
}

// externalGlobalFns builds per-path values of external package-level variables.
var externalGlobalFns = map[string]func(i *interpreter) value{
	"context.Canceled":  func(i *interpreter) value { return makeError(i, "context canceled") },
	"context.DeadlineExceeded": func(i *interpreter) value { return makeError(i, "context deadline exceeded") },
	"os.ErrNotExist":    func(i *interpreter) value { return makeError(i, "file does not exist") },
	"golang.org/x/text/language.AmericanEnglish": func(i *interpreter) value { return native{language.AmericanEnglish} },
}

func init() {
	I := intrinsics
	I["(golang.org/x/text/unicode/norm.Form).String"] = func(fr *frame, args []value) value {
		form := norm.Form(asInt64(args[0]))
		switch s := args[1].(type) {
		case string:
			return form.String(s)
		case symstr:
			for _, p := range s.p {
				switch {
				case p.k == pkBytes && form.IsNormalString(p.s):
				case p.k == pkRune && p.n == 1, p.k == pkItoa, p.k == pkUtoa, p.k == pkFtoa, p.k == pkOpaque:
				default:
					panic(pathEnd{kind: Inconclusive, msg: "unicode normalisation of a string with symbolic non-ASCII runes"})
				}
			}
			return s
		}
		panic(engineErr("norm.String arg"))
	}
	I["golang.org/x/text/cases.Title"] = func(fr *frame, args []value) value {
		return native{cases.Title(language.AmericanEnglish)}
	}
	I["(golang.org/x/text/cases.Caser).String"] = func(fr *frame, args []value) value {
		c := args[0].(native).v.(cases.Caser)
		return c.String(strArg(args[1], "cases.Caser.String"))
	}
	I["context.Cause"] = func(fr *frame, args []value) value {
		it := args[0].(iface)
		if it.t == nil {
			rtPanic("invalid memory address or nil pointer dereference")
		}
		return callMethod(fr, it, "Err")
	}
	I["github.com/davecgh/go-spew/spew.Sdump"] = func(fr *frame, args []value) value { return "<spew dump>" }
	I["github.com/agnivade/levenshtein.ComputeDistance"] = nativeFn("levenshtein.ComputeDistance", levenshtein.ComputeDistance)
	I["strconv.AppendFloat"] = nativeFn("strconv.AppendFloat", strconv.AppendFloat)
	I["os.Getenv"] = func(fr *frame, args []value) value { return "" }
	hostJoin := I["strings.Join"]
	I["strings.Join"] = func(fr *frame, args []value) value {
		elems := args[0].([]value)
		anySym := false
		for _, e := range elems {
			if _, ok := e.(symstr); ok {
				anySym = true
			}
		}
		if !anySym {
			return hostJoin(fr, args)
		}
		sep := args[1]
		var r value = ""
		for k, e := range elems {
			if k > 0 {
				r = strConcat(r, sep)
			}
			r = strConcat(r, e)
		}
		return r
	}
}

func init() {
	I := intrinsics
	hostRepeat := I["strings.Repeat"]
	I["strings.Repeat"] = func(fr *frame, args []value) value {
		c, ok := args[1].(sym)
		if !ok {
			if n := asInt64(args[1]); n < 0 {
				panic(targetPanic{iface{t: types.Typ[types.String], v: "strings: negative Repeat count"}})
			} else if n > 1<<16 {
				panic(pathEnd{kind: Inconclusive, msg: "strings.Repeat with a huge count"})
			}
			return hostRepeat(fr, args)
		}
		if fr.branch(Cmp(OpSlt, c.t, Const(c.t.sort, 0))) {
			panic(targetPanic{iface{t: types.Typ[types.String], v: "strings: negative Repeat count"}})
		}
		n := fr.concreteBound(args[1], 0, fr.i.opts.MaxSymLen, "repeat count")
		if n > fr.i.opts.MaxSymLen {
			panic(pathEnd{kind: Inconclusive, msg: "strings.Repeat with a symbolic count beyond the concretisation bound"})
		}
		var r value = ""
		for k := 0; k < n; k++ {
			r = strConcat(r, args[0])
		}
		return r
	}
}

// math/rand: "for any seed" becomes "for every choice" (bounded number of non-default choices per path).
type symRand struct{}

func init() {
	I := intrinsics
	I["math/rand.NewSource"] = func(fr *frame, args []value) value {
		return iface{t: types.NewPointer(types.Typ[types.Int]), v: native{&symRand{}}}
	}
	I["math/rand.New"] = func(fr *frame, args []value) value { return native{&symRand{}} }
	randChoose := func(fr *frame, n int) int {
		if n <= 1 || fr.i.randBudget <= 0 {
			return 0
		}
		c := fr.i.choose(n, "rand")
		if c != 0 {
			fr.i.randBudget--
		}
		return c
	}
	// every draw is recorded (in order) so that a scripted rand.Source can replay it natively
	record := func(fr *frame, kind string, v, n int) {
		fr.i.ndVals[fmt.Sprintf("rand_%d", fr.i.randDraws)] = fmt.Sprintf("%s:%d:%d", kind, v, n)
		fr.i.randDraws++
	}
	I["(*math/rand.Rand).Intn"] = func(fr *frame, args []value) value {
		n := int(asInt64(args[1]))
		if n <= 0 {
			panic(targetPanic{iface{t: types.Typ[types.String], v: "invalid argument to Intn"}})
		}
		c := randChoose(fr, n)
		record(fr, "i", c, n)
		return c
	}
	I["(*math/rand.Rand).Shuffle"] = func(fr *frame, args []value) value {
		n := int(asInt64(args[1]))
		for k := n - 1; k > 0; k-- {
			j := k - randChoose(fr, k+1) // choice 0 keeps position k (identity permutation by default)
			record(fr, "s", j, k+1)
			call(fr.i, fr, 0, args[2], []value{k, j})
		}
		return nil
	}
}
