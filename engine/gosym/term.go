package gosym

// SMT terms: hash-consed DAG over Bool, fixed-width bit-vectors and Float64,
// with a concrete evaluator (used for constant folding and for evaluating a
// cached model) and an SMT-LIB2 printer.

import (
	"fmt"
	"math"
	"math/bits"
	"strconv"
	"strings"
	"sync"
)

type Sort uint8

const (
	SBool Sort = iota
	SBV8
	SBV16
	SBV32
	SBV64
	SFP64
)

func (s Sort) Width() uint {
	switch s {
	case SBool:
		return 1
	case SBV8:
		return 8
	case SBV16:
		return 16
	case SBV32:
		return 32
	}
	return 64
}

func (s Sort) IsBV() bool { return s >= SBV8 && s <= SBV64 }

func (s Sort) SMT() string {
	switch s {
	case SBool:
		return "Bool"
	case SFP64:
		return "(_ FloatingPoint 11 53)"
	}
	return fmt.Sprintf("(_ BitVec %d)", s.Width())
}

func bvSort(w uint) Sort {
	switch w {
	case 8:
		return SBV8
	case 16:
		return SBV16
	case 32:
		return SBV32
	case 64:
		return SBV64
	}
	panic(fmt.Sprintf("bvSort(%d)", w))
}

type Op uint8

const (
	OpConst Op = iota
	OpVar
	// bool
	OpNot
	OpAnd
	OpOr
	OpEq // any sort -> Bool
	OpIte
	// bv
	OpAdd
	OpSub
	OpMul
	OpSDiv
	OpUDiv
	OpSRem
	OpURem
	OpBAnd
	OpBOr
	OpBXor
	OpBNot
	OpNeg
	OpShl
	OpLShr
	OpAShr
	OpUlt
	OpUle
	OpSlt
	OpSle
	OpZExt  // to t.sort
	OpSExt  // to t.sort
	OpTrunc // extract low bits to t.sort
	// fp
	OpFAdd
	OpFSub
	OpFMul
	OpFDiv
	OpFNeg
	OpFEq
	OpFLt
	OpFLe
	OpFIsNaN
	OpFIsInf
	OpFFromS  // signed bv -> fp (RNE)
	OpFFromU  // unsigned bv -> fp (RNE)
	OpFToS    // fp -> signed bv64 (RTZ), only meaningful in range
	OpFTrunc  // roundToIntegral RTZ
	OpFRound  // roundToIntegral RNA
	OpFFloor  // roundToIntegral RTN
	OpFCeil   // roundToIntegral RTP
	OpFAbs
	OpFOfBits // bv64 -> fp reinterpret
	OpUF      // uninterpreted function name(args...) -> sort
)

var opSMT = map[Op]string{
	OpNot: "not", OpAnd: "and", OpOr: "or", OpEq: "=", OpIte: "ite",
	OpAdd: "bvadd", OpSub: "bvsub", OpMul: "bvmul", OpSDiv: "bvsdiv", OpUDiv: "bvudiv",
	OpSRem: "bvsrem", OpURem: "bvurem", OpBAnd: "bvand", OpBOr: "bvor", OpBXor: "bvxor",
	OpBNot: "bvnot", OpNeg: "bvneg", OpShl: "bvshl", OpLShr: "bvlshr", OpAShr: "bvashr",
	OpUlt: "bvult", OpUle: "bvule", OpSlt: "bvslt", OpSle: "bvsle",
	OpFAdd: "fp.add RNE", OpFSub: "fp.sub RNE", OpFMul: "fp.mul RNE", OpFDiv: "fp.div RNE",
	OpFNeg: "fp.neg", OpFEq: "fp.eq", OpFLt: "fp.lt", OpFLe: "fp.leq",
	OpFIsNaN: "fp.isNaN", OpFIsInf: "fp.isInfinite",
	OpFFromS: "(_ to_fp 11 53) RNE", OpFFromU: "(_ to_fp_unsigned 11 53) RNE",
	OpFToS: "(_ fp.to_sbv 64) RTZ", OpFTrunc: "fp.roundToIntegral RTZ",
	OpFRound: "fp.roundToIntegral RNA", OpFFloor: "fp.roundToIntegral RTN",
	OpFCeil: "fp.roundToIntegral RTP", OpFAbs: "fp.abs", OpFOfBits: "(_ to_fp 11 53)",
}

type Term struct {
	op   Op
	sort Sort
	args []*Term
	val  uint64 // OpConst: bits
	name string // OpVar / OpUF
	id   int
}

func (t *Term) Sort() Sort    { return t.sort }
func (t *Term) IsConst() bool { return t.op == OpConst }
func (t *Term) Const() uint64 { return t.val }

var (
	internMu  sync.Mutex
	internTab = map[string]*Term{}
	termSeq   int
)

func intern(op Op, sort Sort, val uint64, name string, args ...*Term) *Term {
	var sb strings.Builder
	sb.WriteByte(byte(op) + 33)
	sb.WriteByte(byte(sort) + 33)
	if op == OpConst {
		sb.WriteString(strconv.FormatUint(val, 16))
	}
	if name != "" {
		sb.WriteString(name)
	}
	for _, a := range args {
		sb.WriteByte(',')
		sb.WriteString(strconv.Itoa(a.id))
	}
	k := sb.String()
	internMu.Lock()
	defer internMu.Unlock()
	if t, ok := internTab[k]; ok {
		return t
	}
	termSeq++
	t := &Term{op: op, sort: sort, args: append([]*Term(nil), args...), val: val, name: name, id: termSeq}
	internTab[k] = t
	return t
}

func mask(s Sort) uint64 {
	if s == SBool {
		return 1
	}
	w := s.Width()
	if w == 64 {
		return ^uint64(0)
	}
	return (1 << w) - 1
}

func Const(s Sort, v uint64) *Term {
	if s != SFP64 {
		v &= mask(s)
	}
	return intern(OpConst, s, v, "")
}
func BoolT(b bool) *Term {
	if b {
		return Const(SBool, 1)
	}
	return Const(SBool, 0)
}
func FloatT(f float64) *Term { return Const(SFP64, math.Float64bits(f)) }
func Var(name string, s Sort) *Term {
	return intern(OpVar, s, 0, name)
}

var (
	TTrue  = BoolT(true)
	TFalse = BoolT(false)
)

func sext(v uint64, w uint) int64 {
	sh := 64 - w
	return int64(v<<sh) >> sh
}

// evalOp computes op over concrete argument bits. ok=false when the result is
// not determined (UF, out-of-range conversions).
func evalOp(op Op, sort Sort, as Sort, a []uint64) (uint64, bool) {
	b2u := func(b bool) uint64 {
		if b {
			return 1
		}
		return 0
	}
	w := as.Width()
	m := mask(sort)
	f := func(i int) float64 { return math.Float64frombits(a[i]) }
	fb := func(x float64) uint64 {
		if x != x {
			return 0x7ff8000000000001 // canonical NaN
		}
		return math.Float64bits(x)
	}
	switch op {
	case OpNot:
		return a[0] ^ 1, true
	case OpAnd:
		r := uint64(1)
		for _, x := range a {
			r &= x
		}
		return r, true
	case OpOr:
		r := uint64(0)
		for _, x := range a {
			r |= x
		}
		return r, true
	case OpEq:
		if as == SFP64 {
			// SMT '=' on FP: structural, NaN = NaN
			x, y := f(0), f(1)
			if x != x || y != y {
				return b2u(x != x && y != y), true
			}
			return b2u(a[0] == a[1]), true
		}
		return b2u(a[0] == a[1]), true
	case OpIte:
		if a[0] == 1 {
			return a[1], true
		}
		return a[2], true
	case OpAdd:
		return (a[0] + a[1]) & m, true
	case OpSub:
		return (a[0] - a[1]) & m, true
	case OpMul:
		return (a[0] * a[1]) & m, true
	case OpSDiv:
		if a[1] == 0 {
			// SMT: bvsdiv by 0 = all-ones if x>=0 else 1
			if sext(a[0], w) >= 0 {
				return m, true
			}
			return 1, true
		}
		x, y := sext(a[0], w), sext(a[1], w)
		if y == -1 {
			return uint64(-x) & m, true
		}
		return uint64(x/y) & m, true
	case OpUDiv:
		if a[1] == 0 {
			return m, true
		}
		return (a[0] / a[1]) & m, true
	case OpSRem:
		if a[1] == 0 {
			return a[0], true
		}
		x, y := sext(a[0], w), sext(a[1], w)
		if y == -1 {
			return 0, true
		}
		return uint64(x%y) & m, true
	case OpURem:
		if a[1] == 0 {
			return a[0], true
		}
		return (a[0] % a[1]) & m, true
	case OpBAnd:
		return a[0] & a[1], true
	case OpBOr:
		return a[0] | a[1], true
	case OpBXor:
		return a[0] ^ a[1], true
	case OpBNot:
		return ^a[0] & m, true
	case OpNeg:
		return (-a[0]) & m, true
	case OpShl:
		if a[1] >= uint64(w) {
			return 0, true
		}
		return (a[0] << a[1]) & m, true
	case OpLShr:
		if a[1] >= uint64(w) {
			return 0, true
		}
		return (a[0] >> a[1]) & m, true
	case OpAShr:
		x := sext(a[0], w)
		if a[1] >= uint64(w) {
			if x < 0 {
				return m, true
			}
			return 0, true
		}
		return uint64(x>>a[1]) & m, true
	case OpUlt:
		return b2u(a[0] < a[1]), true
	case OpUle:
		return b2u(a[0] <= a[1]), true
	case OpSlt:
		return b2u(sext(a[0], w) < sext(a[1], w)), true
	case OpSle:
		return b2u(sext(a[0], w) <= sext(a[1], w)), true
	case OpZExt:
		return a[0], true
	case OpSExt:
		return uint64(sext(a[0], w)) & m, true
	case OpTrunc:
		return a[0] & m, true
	case OpFAdd:
		return fb(f(0) + f(1)), true
	case OpFSub:
		return fb(f(0) - f(1)), true
	case OpFMul:
		return fb(f(0) * f(1)), true
	case OpFDiv:
		return fb(f(0) / f(1)), true
	case OpFNeg:
		return a[0] ^ (1 << 63), true
	case OpFAbs:
		return a[0] &^ (1 << 63), true
	case OpFEq:
		return b2u(f(0) == f(1)), true
	case OpFLt:
		return b2u(f(0) < f(1)), true
	case OpFLe:
		return b2u(f(0) <= f(1)), true
	case OpFIsNaN:
		return b2u(f(0) != f(0)), true
	case OpFIsInf:
		return b2u(math.IsInf(f(0), 0)), true
	case OpFFromS:
		return fb(float64(sext(a[0], w))), true
	case OpFFromU:
		return fb(float64(a[0])), true
	case OpFToS:
		x := f(0)
		if x != x || x >= 9223372036854775808.0 || x < -9223372036854775808.0 {
			return 0, false
		}
		return uint64(int64(x)), true
	case OpFTrunc:
		return fb(math.Trunc(f(0))), true
	case OpFRound:
		return fb(math.Round(f(0))), true
	case OpFFloor:
		return fb(math.Floor(f(0))), true
	case OpFCeil:
		return fb(math.Ceil(f(0))), true
	case OpFOfBits:
		return fb(math.Float64frombits(a[0])), true
	}
	return 0, false
}

// Mk builds a term with constant folding and light simplification.
func Mk(op Op, sort Sort, args ...*Term) *Term {
	allc := true
	for _, a := range args {
		if a.op != OpConst {
			allc = false
			break
		}
	}
	if allc && op != OpUF {
		vals := make([]uint64, len(args))
		for i, a := range args {
			vals[i] = a.val
		}
		var as Sort
		if len(args) > 0 {
			as = args[0].sort
			if op == OpIte {
				as = args[1].sort
			}
		}
		if v, ok := evalOp(op, sort, as, vals); ok {
			return Const(sort, v)
		}
	}
	switch op {
	case OpNot:
		if args[0].op == OpNot {
			return args[0].args[0]
		}
	case OpAnd:
		var out []*Term
		for _, a := range args {
			if a == TFalse {
				return TFalse
			}
			if a == TTrue {
				continue
			}
			out = append(out, a)
		}
		if len(out) == 0 {
			return TTrue
		}
		if len(out) == 1 {
			return out[0]
		}
		args = out
	case OpOr:
		var out []*Term
		for _, a := range args {
			if a == TTrue {
				return TTrue
			}
			if a == TFalse {
				continue
			}
			out = append(out, a)
		}
		if len(out) == 0 {
			return TFalse
		}
		if len(out) == 1 {
			return out[0]
		}
		args = out
	case OpEq:
		if args[0] == args[1] && args[0].sort != SFP64 {
			return TTrue
		}
		if args[0].sort == SBool {
			if args[1] == TTrue {
				return args[0]
			}
			if args[1] == TFalse {
				return Mk(OpNot, SBool, args[0])
			}
			if args[0] == TTrue {
				return args[1]
			}
			if args[0] == TFalse {
				return Mk(OpNot, SBool, args[1])
			}
		}
	case OpIte:
		if args[0] == TTrue {
			return args[1]
		}
		if args[0] == TFalse {
			return args[2]
		}
		if args[1] == args[2] {
			return args[1]
		}
	case OpZExt, OpSExt, OpTrunc:
		if args[0].sort == sort {
			return args[0]
		}
	case OpAdd, OpBOr, OpBXor:
		if args[1].op == OpConst && args[1].val == 0 {
			return args[0]
		}
		if args[0].op == OpConst && args[0].val == 0 {
			return args[1]
		}
	case OpSub, OpShl, OpLShr, OpAShr:
		if args[1].op == OpConst && args[1].val == 0 {
			return args[0]
		}
	}
	switch op {
	case OpAdd, OpMul, OpBAnd, OpBOr, OpBXor, OpEq, OpFAdd, OpFMul, OpFEq:
		// canonical operand order for commutative operators
		if len(args) == 2 && args[0].id > args[1].id {
			args = []*Term{args[1], args[0]}
		}
	}
	return intern(op, sort, 0, "", args...)
}

func UF(name string, sort Sort, args ...*Term) *Term {
	return intern(OpUF, sort, 0, name, args...)
}

func Not(a *Term) *Term         { return Mk(OpNot, SBool, a) }
func And(a ...*Term) *Term      { return Mk(OpAnd, SBool, a...) }
func Or(a ...*Term) *Term       { return Mk(OpOr, SBool, a...) }
func Eq(a, b *Term) *Term       { return Mk(OpEq, SBool, a, b) }
func Ite(c, a, b *Term) *Term   { return Mk(OpIte, a.sort, c, a, b) }
func Bin(op Op, a, b *Term) *Term { return Mk(op, a.sort, a, b) }
func Cmp(op Op, a, b *Term) *Term { return Mk(op, SBool, a, b) }

// Eval evaluates t under a model (variable name -> bits). Missing variables are 0.
func Eval(t *Term, model map[string]uint64, memo map[*Term]evalRes) (uint64, bool) {
	if t.op == OpConst {
		return t.val, true
	}
	if r, ok := memo[t]; ok {
		return r.v, r.ok
	}
	var v uint64
	ok := true
	switch t.op {
	case OpVar:
		v = model[t.name]
	case OpUF:
		ok = false
	default:
		vals := make([]uint64, len(t.args))
		for i, a := range t.args {
			x, k := Eval(a, model, memo)
			if !k {
				ok = false
				break
			}
			vals[i] = x
		}
		if ok {
			as := t.args[0].sort
			v, ok = evalOp(t.op, t.sort, as, vals)
		}
	}
	memo[t] = evalRes{v, ok}
	return v, ok
}

type evalRes struct {
	v  uint64
	ok bool
}

// ---- SMT-LIB printing ----

func constSMT(t *Term) string {
	switch t.sort {
	case SBool:
		if t.val == 1 {
			return "true"
		}
		return "false"
	case SFP64:
		s := t.val >> 63
		e := (t.val >> 52) & 0x7ff
		m := t.val & ((1 << 52) - 1)
		return fmt.Sprintf("(fp #b%d #b%011b #x%013x)", s, e, m)
	}
	w := t.sort.Width()
	return fmt.Sprintf("#x%0*x", int(w/4), t.val)
}

func (t *Term) ref() string {
	switch t.op {
	case OpConst:
		return constSMT(t)
	case OpVar:
		return t.name
	}
	return "t" + strconv.Itoa(t.id)
}

func (t *Term) body() string {
	var sb strings.Builder
	switch t.op {
	case OpZExt:
		fmt.Fprintf(&sb, "((_ zero_extend %d) %s)", t.sort.Width()-t.args[0].sort.Width(), t.args[0].ref())
		return sb.String()
	case OpSExt:
		fmt.Fprintf(&sb, "((_ sign_extend %d) %s)", t.sort.Width()-t.args[0].sort.Width(), t.args[0].ref())
		return sb.String()
	case OpTrunc:
		fmt.Fprintf(&sb, "((_ extract %d 0) %s)", t.sort.Width()-1, t.args[0].ref())
		return sb.String()
	case OpUF:
		sb.WriteString("(" + t.name)
	default:
		sb.WriteString("(" + opSMT[t.op])
	}
	for _, a := range t.args {
		sb.WriteByte(' ')
		sb.WriteString(a.ref())
	}
	sb.WriteByte(')')
	return sb.String()
}

// String renders the term fully inlined (for samples / debugging).
func (t *Term) String() string {
	if t.op == OpConst || t.op == OpVar {
		return t.ref()
	}
	var sb strings.Builder
	n := 0
	var rec func(t *Term)
	rec = func(t *Term) {
		n++
		if n > 200 {
			sb.WriteString("…")
			return
		}
		if t.op == OpConst || t.op == OpVar {
			sb.WriteString(t.ref())
			return
		}
		name := opSMT[t.op]
		switch t.op {
		case OpZExt:
			name = "zext"
		case OpSExt:
			name = "sext"
		case OpTrunc:
			name = fmt.Sprintf("trunc%d", t.sort.Width())
		case OpUF:
			name = t.name
		}
		sb.WriteString("(" + name)
		for _, a := range t.args {
			sb.WriteByte(' ')
			rec(a)
		}
		sb.WriteByte(')')
	}
	rec(t)
	return sb.String()
}

var _ = bits.Len
