package gosym

// encoding/json model. Concrete trees go through the real encoding/json.
// Trees with symbolic leaves are carried as an opaque document ("blob") whose
// text is never materialised; Unmarshal of such a document applies the
// contract of a JSON round trip: strings, bools, nil, maps and slices are
// preserved, every number comes back as float64(x) (round to nearest even).

import (
	"encoding/json"
	"fmt"
	"go/types"
	"strconv"
	"strings"
)

type jsonBlob struct{ id int }

var (
	emptyIfaceT = types.NewInterfaceType(nil, nil).Complete()
	jsonMapT    = types.NewMap(types.Typ[types.String], emptyIfaceT)
	jsonSliceT  = types.NewSlice(emptyIfaceT)
)

type jsonErr struct{ msg string }

// toJSONHost converts an interface{} tree to a host tree; ok=false if a leaf is symbolic.
func toJSONHost(fr *frame, v value) (interface{}, bool) {
	it, isI := v.(iface)
	if isI {
		if it.t == nil {
			return nil, true
		}
		if hasNamedMethod(fr, it.t, "MarshalJSON") {
			if isSym(it.v) {
				return nil, false
			}
			r := callMethod(fr, it, "MarshalJSON").(tuple)
			if e := r[1].(iface); e.t != nil {
				panic(jsonErr{"json: error calling MarshalJSON for type " + it.t.String() + ": " + fmt.Sprint(errorText(fr, e))})
			}
			bs := r[0].([]value)
			raw := make([]byte, len(bs))
			for k, b := range bs {
				raw[k] = b.(uint8)
			}
			return json.RawMessage(raw), true
		}
		v = it.v
	}
	switch x := v.(type) {
	case string, bool, int, int64, float64:
		return x, true
	case sym, symstr:
		return nil, false
	case *omap:
		out := map[string]interface{}{}
		if x != nil {
			for _, e := range x.live() {
				k, ok := e.k.(string)
				if !ok {
					return nil, false
				}
				h, ok := toJSONHost(fr, e.v)
				if !ok {
					return nil, false
				}
				out[k] = h
			}
		} else {
			return map[string]interface{}(nil), true
		}
		return out, true
	case []value:
		out := make([]interface{}, 0, len(x))
		for _, e := range x {
			h, ok := toJSONHost(fr, e)
			if !ok {
				return nil, false
			}
			out = append(out, h)
		}
		return out, true
	}
	panic(pathEnd{kind: Inconclusive, msg: fmt.Sprintf("json.Marshal of unmodelled value %T", v)})
}

func hasNamedMethod(fr *frame, t types.Type, name string) bool {
	ms := fr.i.prog.MethodSets.MethodSet(t)
	for k := 0; k < ms.Len(); k++ {
		if ms.At(k).Obj().Name() == name {
			return true
		}
	}
	return false
}

func fromJSONHost(h interface{}) value {
	switch x := h.(type) {
	case nil:
		return iface{}
	case string:
		return iface{t: types.Typ[types.String], v: x}
	case bool:
		return iface{t: types.Typ[types.Bool], v: x}
	case float64:
		return iface{t: types.Typ[types.Float64], v: x}
	case map[string]interface{}:
		m := newOmap(types.Typ[types.String])
		// deterministic insertion order
		keys := make([]string, 0, len(x))
		for k := range x {
			keys = append(keys, k)
		}
		sortStrings(keys)
		for _, k := range keys {
			m.insert(nil, k, fromJSONHost(x[k]))
		}
		return iface{t: jsonMapT, v: m}
	case []interface{}:
		out := make([]value, len(x))
		for k, e := range x {
			out[k] = fromJSONHost(e)
		}
		return iface{t: jsonSliceT, v: out}
	}
	panic(engineErr(fmt.Sprintf("fromJSONHost %T", h)))
}

func sortStrings(s []string) {
	for i := 1; i < len(s); i++ {
		for j := i; j > 0 && s[j-1] > s[j]; j-- {
			s[j-1], s[j] = s[j], s[j-1]
		}
	}
}

// contractRoundTrip maps a marshalled tree to what Unmarshal into interface{} yields.
func contractRoundTrip(fr *frame, v value) value {
	it, isI := v.(iface)
	var t types.Type
	if isI {
		if it.t == nil {
			return iface{}
		}
		t = it.t
		v = it.v
	}
	switch x := v.(type) {
	case string, symstr:
		return iface{t: types.Typ[types.String], v: x}
	case bool:
		return iface{t: types.Typ[types.Bool], v: x}
	case int, int64:
		return iface{t: types.Typ[types.Float64], v: float64(asInt64(x))}
	case float64:
		if x != x || x > 1.7976931348623157e308 || x < -1.7976931348623157e308 {
			panic(jsonErr{"json: unsupported value"})
		}
		return iface{t: types.Typ[types.Float64], v: x}
	case sym:
		switch {
		case x.k == types.Bool:
			return iface{t: types.Typ[types.Bool], v: x}
		case x.k == types.Float64:
			if fr.branch(Or(Mk(OpFIsNaN, SBool, x.t), Mk(OpFIsInf, SBool, x.t))) {
				panic(jsonErr{"json: unsupported float value"})
			}
			return iface{t: types.Typ[types.Float64], v: x}
		case kindSigned(x.k):
			return iface{t: types.Typ[types.Float64], v: mkval(Mk(OpFFromS, SFP64, x.t), types.Float64)}
		default:
			return iface{t: types.Typ[types.Float64], v: mkval(Mk(OpFFromU, SFP64, x.t), types.Float64)}
		}
	case *omap:
		m := newOmap(types.Typ[types.String])
		if x != nil {
			for _, e := range x.live() {
				m.insert(fr, e.k, contractRoundTrip(fr, e.v))
			}
		}
		return iface{t: jsonMapT, v: m}
	case []value:
		out := make([]value, len(x))
		for k, e := range x {
			out[k] = contractRoundTrip(fr, e)
		}
		return iface{t: jsonSliceT, v: out}
	}
	_ = t
	panic(pathEnd{kind: Inconclusive, msg: fmt.Sprintf("json round trip of unmodelled value %T", v)})
}

func bytesValue(b []byte) []value {
	out := make([]value, len(b))
	for k, c := range b {
		out[k] = c
	}
	return out
}

func init() {
	I := intrinsics
	marshal := func(indent bool) intrinsic {
		return func(fr *frame, args []value) (res value) {
			defer func() {
				if r := recover(); r != nil {
					if je, ok := r.(jsonErr); ok {
						res = tuple{[]value(nil), makeError(fr.i, je.msg)}
						return
					}
					panic(r)
				}
			}()
			h, ok := toJSONHost(fr, args[0])
			if ok {
				var b []byte
				var err error
				if indent {
					b, err = json.MarshalIndent(h, strArg(args[1], "MarshalIndent prefix"), strArg(args[2], "MarshalIndent indent"))
				} else {
					b, err = json.Marshal(h)
				}
				if err != nil {
					return tuple{[]value(nil), makeError(fr.i, err.Error())}
				}
				return tuple{bytesValue(b), iface{}}
			}
			// symbolic leaves: validate (NaN/Inf) by applying the contract now, keep the document opaque
			doc := contractRoundTrip(fr, args[0])
			fr.i.blobs = append(fr.i.blobs, doc)
			return tuple{[]value{jsonBlob{len(fr.i.blobs) - 1}}, iface{}}
		}
	}
	I["encoding/json.Marshal"] = marshal(false)
	I["encoding/json.MarshalIndent"] = marshal(true)
	I["encoding/json.Unmarshal"] = func(fr *frame, args []value) value {
		data := args[0].([]value)
		dst := args[1].(iface)
		ptr, ok := dst.v.(*value)
		if !ok || ptr == nil {
			panic(pathEnd{kind: Inconclusive, msg: "json.Unmarshal into an unmodelled destination"})
		}
		if pt, ok := dst.t.Underlying().(*types.Pointer); !ok || !types.Identical(pt.Elem().Underlying(), emptyIfaceT) {
			panic(pathEnd{kind: Inconclusive, msg: "json.Unmarshal into a typed destination: " + dst.t.String()})
		}
		if len(data) == 1 {
			if jb, ok := data[0].(jsonBlob); ok {
				*ptr = fr.i.blobs[jb.id]
				return iface{}
			}
		}
		raw := make([]byte, len(data))
		for k, b := range data {
			c, ok := b.(uint8)
			if !ok {
				panic(pathEnd{kind: Inconclusive, msg: "json.Unmarshal of symbolic text"})
			}
			raw[k] = c
		}
		var h interface{}
		if err := json.Unmarshal(raw, &h); err != nil {
			return makeError(fr.i, err.Error())
		}
		*ptr = fromJSONHost(h)
		return iface{}
	}
}

func blobPiece(jb jsonBlob) spiece { return spiece{k: pkOpaque, s: "json#" + strconv.Itoa(jb.id)} }

func pieceBlob(p spiece) (jsonBlob, bool) {
	if p.k == pkOpaque && strings.HasPrefix(p.s, "json#") {
		id, _ := strconv.Atoi(p.s[5:])
		return jsonBlob{id}, true
	}
	return jsonBlob{}, false
}
