package main

import (
	"crypto/sha1"
	"encoding/json"
	"flag"
	"fmt"
	"os"
	"os/exec"
	"path/filepath"
	"sort"
	"strconv"
	"strings"
	"time"

	"verif/engine/gosym"
)

// The registered commands run against /repo and write under /verif. For regression runs of the machinery itself
// (seeded changes applied to a scratch copy) VERIF_REPO names another checkout and VERIF_OUT another output root.
var (
	repoDir    = envOr("VERIF_REPO", "/repo")
	verifDir   = envOr("VERIF_HOME", "/verif") // known_findings.json is read from here
	outDir     = envOr("VERIF_OUT", "/verif")
	harnessDir = envOr("VERIF_HARNESS", "/verif/harness")
	workDir    = filepath.Join(envOr("VERIF_OUT", "/verif"), ".work")
)

func envOr(name, def string) string {
	if v := os.Getenv(name); v != "" {
		return v
	}
	return def
}

type HarnessSpec struct {
	Pkg    string // relative to module, e.g. homescript/lexer
	Func   string
	Quick  map[string]int // params
	Thor   map[string]int
	Opts   gosym.Options
	QuickPaths, ThorPaths int64 // path budgets (0 = unlimited)
	QuickSecs, ThorSecs   int   // wall budgets
	Require []string // Reached labels that must be hit on >= 1 path
	What    string
	TimeoutMs int
	Overrides map[string]string
	ThorSchedBudget int // scheduling deviations explored in the thorough tier (0 = as in Opts)
	OnlyLabels []string // when set, assertion labels outside this list belong to another property and are not reported here
}

type PropSpec struct {
	ID          string
	Level       string // other | translation_validation
	Harnesses   []HarnessSpec
	Explanation string
	Assumptions []string
	Outside     []string
}

type Known struct {
	Property string            `json:"property"`
	Harness  string            `json:"harness"`
	Kind     string            `json:"kind"`
	Label    string            `json:"label"`
	Tags     map[string]string `json:"tags"`
	What     string            `json:"what"`
}

type knownFile struct {
	Findings []Known  `json:"findings"`
	Fixed    []string `json:"fixed"`
}

func loadKnown() knownFile {
	var k knownFile
	b, err := os.ReadFile(filepath.Join(verifDir, "known_findings.json"))
	if err == nil {
		json.Unmarshal(b, &k)
	}
	return k
}

func (k Known) matches(prop string, v *gosym.Violation) bool {
	if k.Property != prop || k.Harness != v.Harness || k.Kind != v.Kind || k.Label != v.Label {
		return false
	}
	for tk, tv := range k.Tags {
		if v.Tags[tk] != tv {
			return false
		}
	}
	return true
}

func runCmd(args []string) {
	fs := flag.NewFlagSet("run", flag.ExitOnError)
	pid := fs.String("p", "", "property id")
	tier := fs.String("tier", "quick", "quick|thorough")
	only := fs.String("only", "", "run only this harness")
	workers := fs.Int("workers", 16, "workers")
	noReplay := fs.Bool("noreplay", false, "skip native replay (debug)")
	verbose := fs.Bool("v", false, "verbose")
	fs.Parse(args)
	if t := os.Getenv("VERIF_TIER"); t != "" && *tier == "" {
		*tier = t
	}
	seed := 0
	if s := os.Getenv("VERIF_SEED"); s != "" {
		seed, _ = strconv.Atoi(s)
	}
	var spec *PropSpec
	for k := range props {
		if props[k].ID == *pid {
			spec = &props[k]
		}
	}
	if spec == nil {
		fmt.Println("unknown property", *pid)
		os.Exit(2)
	}
	t0 := time.Now()
	P, err := gosym.Load(repoDir, []string{harnessDir}, []string{"./homescript/..."})
	if err != nil {
		fmt.Println("CHECK-ERROR: cannot load /repo with harness overlays:", err)
		os.Exit(2)
	}
	loadS := time.Since(t0).Seconds()
	gosym.RegisterAPI(P.Module + "/homescript/errors")
	known := loadKnown()

	var results []hresPub
	checkErrors := []string{}
	for _, h := range spec.Harnesses {
		if *only != "" && h.Func != *only {
			continue
		}
		params := h.Quick
		maxPaths, secs := h.QuickPaths, h.QuickSecs
		if *tier == "thorough" {
			params = h.Thor
			if params == nil {
				params = h.Quick
			}
			maxPaths, secs = h.ThorPaths, h.ThorSecs
		}
		if secs == 0 {
			// every harness has a wall budget; running out of it is reported as non-exhaustive coverage, never as a hang
			secs = 420
			if *tier == "thorough" {
				secs = 2400
			}
		}
		cfg := &gosym.HarnessCfg{Pkg: P.Module + "/" + h.Pkg, Func: h.Func, Workers: *workers, Params: params,
			Opts: h.Opts, Overrides: h.Overrides, MaxPaths: maxPaths, Deadline: time.Duration(secs) * time.Second, TimeoutMs: h.TimeoutMs}
		if *tier == "thorough" && h.ThorSchedBudget > 0 {
			cfg.Opts.SchedBudget = h.ThorSchedBudget
		}
		if *tier == "thorough" && cfg.TimeoutMs == 0 {
			cfg.TimeoutMs = 120000
		}
		res := gosym.Explore(P, cfg)
		results = append(results, hresPub{h, res, params})
		if *verbose {
			fmt.Printf("# %s: paths=%d outcomes=%v violations=%d exhausted=%v wall=%.1fs queries=%d\n", h.Func, res.Paths, res.ByOutcome, len(res.Violations), res.Exhausted, res.WallS, res.Stats.Queries)
			for m, n := range res.InconclusiveMsgs {
				fmt.Printf("#   inconclusive x%d: %s\n", n, m)
			}
		}
		for _, lab := range h.Require {
			if res.Reached[lab] == 0 {
				checkErrors = append(checkErrors, fmt.Sprintf("%s: witness %q not reached on any path (vacuous harness)", h.Func, lab))
			}
		}
		if n := res.ByOutcome["engine-error"]; n > 0 {
			checkErrors = append(checkErrors, fmt.Sprintf("%s: %d paths ended in an engine error", h.Func, n))
		}
	}

	// replay gate
	os.MkdirAll(filepath.Join(outDir, "replay", spec.ID), 0o755)
	var all []*gosym.Violation
	for _, hr := range results {
		var sigs []string
		for s := range hr.Res.Violations {
			sigs = append(sigs, s)
		}
		sort.Strings(sigs)
		for _, s := range sigs {
			v := hr.Res.Violations[s]
			if len(hr.Spec.OnlyLabels) > 0 && v.Kind == "assert" {
				keep := false
				for _, l := range hr.Spec.OnlyLabels {
					keep = keep || l == v.Label
				}
				if !keep {
					continue
				}
			}
			v.SchedDependent = hr.Spec.Opts.Sched || hr.Spec.Opts.MapOrder // needs an interleaving or a map iteration order: repeated native runs
			h := sha1.Sum([]byte(s))
			v.ReplayFile = filepath.Join(outDir, "replay", spec.ID, fmt.Sprintf("%s-%x.json", v.Harness, h[:6]))
			rf := map[string]interface{}{"property": spec.ID, "pkg": hr.Spec.Pkg, "harness": v.Harness, "kind": v.Kind, "label": v.Label, "msg": v.Msg, "tags": v.Tags, "vals": v.Vals, "params": hr.Params, "sig": v.Sig}
			b, _ := json.MarshalIndent(rf, "", " ")
			os.WriteFile(v.ReplayFile, b, 0o644)
			all = append(all, v)
		}
	}
	unreplayed := 0
	if !*noReplay && len(all) > 0 {
		rp, err := newReplayer(P.Module)
		if err != nil {
			checkErrors = append(checkErrors, "replay build failed: "+err.Error())
		} else {
			rp.replayAll(all, *workers)
		}
	}
	nViol, nKnown := 0, 0
	knownSeen := map[string]bool{}
	var lines []string
	for _, v := range all {
		if !v.Replayed && !*noReplay {
			unreplayed++
			if *verbose {
				fmt.Printf("# UNREPLAYED %s %s\n#   %s\n", v.Sig, v.ReplayFile, strings.ReplaceAll(tail(v.ReplayOut, 600), "\n", "\n#   "))
			}
			continue
		}
		matched := false
		for _, k := range known.Findings {
			if k.matches(spec.ID, v) {
				matched = true
				v.Known = k.What
				if !knownSeen[k.What] {
					knownSeen[k.What] = true
					lines = append(lines, fmt.Sprintf("KNOWN-FINDING: property=%s %s", spec.ID, k.What))
				}
				nKnown++
				break
			}
		}
		if !matched {
			nViol++
			lines = append(lines, fmt.Sprintf("VIOLATION property=%s replay=%s", spec.ID, v.ReplayFile))
			if *verbose {
				fmt.Printf("# violation %s\n#   vals=%v msg=%s\n", v.Sig, v.Vals, v.Msg)
			}
		}
	}
	for _, l := range lines {
		fmt.Println(l)
	}

	// evidence
	writeEvidence(spec, *tier, seed, results, all, loadS, time.Since(t0).Seconds(), nViol, nKnown, unreplayed, checkErrors)
	for _, e := range checkErrors {
		fmt.Println("CHECK-ERROR:", e)
	}
	if nViol > 0 {
		os.Exit(1)
	}
	if len(checkErrors) > 0 {
		os.Exit(2)
	}
	fmt.Printf("OK property=%s tier=%s harnesses=%d known=%d unreplayed=%d wall=%.1fs\n", spec.ID, *tier, len(results), nKnown, unreplayed, time.Since(t0).Seconds())
}

func tail(s string, n int) string {
	if len(s) > n {
		return s[len(s)-n:]
	}
	return s
}

type hresPub struct {
	Spec   HarnessSpec
	Res    *gosym.Result
	Params map[string]int
}

func writeEvidence(spec *PropSpec, tier string, seed int, rs []hresPub, viols []*gosym.Violation, loadS, wall float64, nViol, nKnown, unreplayed int, checkErrors []string) {
	var paths, symPaths, queries, sat, unsat, unknown, asserts int64
	var solverNs int64
	funcs := map[string]bool{}
	var samples []interface{}
	bounds := map[string]interface{}{}
	inconcl := map[string]int{}
	harn := []map[string]interface{}{}
	exhaustive := true
	for _, r := range rs {
		paths += r.Res.Paths
		symPaths += r.Res.SymbolicPaths
		queries += r.Res.Stats.Queries
		sat += r.Res.Stats.SatN
		unsat += r.Res.Stats.UnsatN
		unknown += r.Res.Stats.UnknownN + r.Res.Stats.Errors
		solverNs += r.Res.Stats.Nanos
		asserts += r.Res.Asserts
		for f := range r.Res.Funcs {
			if !strings.Contains(f, "Verif") && !strings.Contains(f, "verif") {
				funcs[strings.ReplaceAll(f, "github.com/smarthome-go/homescript/v3/homescript/", "")] = true
			}
		}
		for _, s := range r.Res.Samples {
			if len(samples) < 8 {
				samples = append(samples, map[string]interface{}{"harness": r.Spec.Func, "decision_vector": s.Decisions, "model": s.Vals, "outcome": s.Outcome})
			}
		}
		bounds[r.Spec.Func] = r.Params
		for m, n := range r.Res.InconclusiveMsgs {
			inconcl[r.Spec.Func+": "+m] += n
		}
		if !r.Res.Exhausted {
			exhaustive = false
		}
		harn = append(harn, map[string]interface{}{"harness": r.Spec.Func, "what": r.Spec.What, "paths": r.Res.Paths, "outcomes": r.Res.ByOutcome,
			"exhausted_within_budget": r.Res.Exhausted, "wall_s": r.Res.WallS, "queries": r.Res.Stats.Queries, "assert_obligations": r.Res.Asserts, "reached": r.Res.Reached, "params": r.Params})
	}
	var fl []string
	for f := range funcs {
		fl = append(fl, f)
	}
	sort.Strings(fl)
	var vs []map[string]interface{}
	for _, v := range viols {
		vs = append(vs, map[string]interface{}{"sig": v.Sig, "replayed": v.Replayed, "known": v.Known, "replay": v.ReplayFile, "model": v.Vals, "paths": v.Count})
	}
	if len(samples) == 0 {
		samples = append(samples, map[string]interface{}{"note": "no symbolic path completed", "harnesses": len(rs)})
	}
	cov := map[string]interface{}{
		"explanation":                spec.Explanation,
		"evaluations":                paths,
		"distinct_nontrivial":        symPaths,
		"rule":                       "one evaluation = one path of the harness through the real code, identified by its decision vector (distinct by construction: DFS over decision vectors); non-trivial = the vector contains at least one branch decided on a symbolic condition",
		"samples":                    samples,
		"functions_encoded":          fl,
		"bounds":                     bounds,
		"paths":                      paths,
		"queries":                    map[string]int64{"total": queries, "sat": sat, "unsat": unsat, "unknown_or_error": unknown},
		"assert_obligations":         asserts,
		"solver_time_s":              float64(solverNs) / 1e9,
		"solver":                     "z3 4.8.12 (z3 -in, check-sat-assuming), one process per worker",
		"load_and_ssa_build_s":       loadS,
		"inconclusive":               inconcl,
		"unreplayed_counterexamples": unreplayed,
		"known_findings_matched":     nKnown,
		"violations_detail":          vs,
		"harnesses":                  harn,
		"exhaustive":                 exhaustive,
		"outside_the_claim":          spec.Outside,
		"check_errors":               checkErrors,
	}
	if spec.Level == "translation_validation" {
		cov["programs"] = paths
		cov["disagreements_checked"] = len(viols)
	}
	ev := map[string]interface{}{
		"property_id": spec.ID, "tier": tier, "seed": seed, "level": spec.Level,
		"coverage": cov, "assumptions": append(append([]string{}, spec.Assumptions...), spec.Outside...),
		"wall_s": wall, "violations": nViol,
	}
	b, _ := json.MarshalIndent(ev, "", " ")
	os.MkdirAll(filepath.Join(outDir, "evidence"), 0o755)
	os.WriteFile(filepath.Join(outDir, "evidence", spec.ID+".json"), b, 0o644)
}

// ---- native replay ----

type replayer struct {
	module string
	bins   map[string]string // pkg rel path -> test binary
	ovFile string
}

func goEnv() []string {
	return append(os.Environ(), "GOFLAGS=-mod=mod", "GOPROXY=off", "GOSUMDB=off", "GOTOOLCHAIN=local")
}

func newReplayer(module string) (*replayer, error) {
	os.MkdirAll(workDir, 0o755)
	return &replayer{module: module, bins: map[string]string{}}, nil
}

// build compiles the replay test binary of one package with all harness overlays.
func (r *replayer) build(pkgRel string) (string, error) { return r.buildMode(pkgRel, false) }

func (r *replayer) buildMode(pkgRel string, race bool) (string, error) {
	key := pkgRel
	if race {
		key += "#race"
	}
	if b, ok := r.bins[key]; ok {
		return b, nil
	}
	replace := map[string]string{}
	var harnessFuncs []string
	filepath.Walk(harnessDir, func(p string, info os.FileInfo, err error) error {
		if err != nil || info.IsDir() || !strings.HasSuffix(p, ".go") {
			return nil
		}
		rel, _ := filepath.Rel(harnessDir, p)
		replace[filepath.Join(repoDir, rel)] = p
		if filepath.Dir(rel) == pkgRel {
			b, _ := os.ReadFile(p)
			for _, line := range strings.Split(string(b), "\n") {
				if strings.HasPrefix(line, "func VerifHarness_") {
					name := line[len("func "):]
					name = name[:strings.Index(name, "(")]
					harnessFuncs = append(harnessFuncs, name)
				}
			}
		}
		return nil
	})
	pkgName := filepath.Base(pkgRel)
	// find actual package name from a harness file
	for real, src := range replace {
		if filepath.Dir(real) == filepath.Join(repoDir, pkgRel) {
			b, _ := os.ReadFile(src)
			for _, line := range strings.Split(string(b), "\n") {
				if strings.HasPrefix(line, "package ") {
					pkgName = strings.TrimSpace(line[len("package "):])
					break
				}
			}
			break
		}
	}
	var sb strings.Builder
	fmt.Fprintf(&sb, "package %s\n\nimport (\n\t\"os\"\n\t\"testing\"\n", pkgName)
	if pkgRel != "homescript/errors" {
		fmt.Fprintf(&sb, "\tverrors \"%s/homescript/errors\"\n", r.module)
	}
	sb.WriteString(")\n\nfunc TestVerifReplay(t *testing.T) {\n\tswitch os.Getenv(\"VERIF_HARNESS\") {\n")
	for _, f := range harnessFuncs {
		if pkgRel != "homescript/errors" {
			fmt.Fprintf(&sb, "\tcase %q:\n\t\tverrors.VerifReplayMain(%s)\n", f, f)
		} else {
			fmt.Fprintf(&sb, "\tcase %q:\n\t\tVerifReplayMain(%s)\n", f, f)
		}
	}
	sb.WriteString("\tdefault:\n\t\tt.Fatal(\"unknown harness\")\n\t}\n}\n")
	tag := strings.ReplaceAll(pkgRel, "/", "_")
	testSrc := filepath.Join(workDir, tag+"_replay_test.go")
	os.WriteFile(testSrc, []byte(sb.String()), 0o644)
	replace[filepath.Join(repoDir, pkgRel, "zz_verif_replay_test.go")] = testSrc
	ov, _ := json.Marshal(map[string]interface{}{"Replace": replace})
	ovFile := filepath.Join(workDir, tag+"_overlay.json")
	os.WriteFile(ovFile, ov, 0o644)
	bin := filepath.Join(workDir, tag+".test")
	goArgs := []string{"test", "-c", "-vet=off", "-tags=verif", "-overlay", ovFile}
	if race {
		bin = filepath.Join(workDir, tag+".race.test")
		goArgs = append(goArgs, "-race")
	}
	goArgs = append(goArgs, "-o", bin, "./"+pkgRel)
	cmd := exec.Command("go", goArgs...)
	cmd.Dir = repoDir
	cmd.Env = goEnv()
	out, err := cmd.CombinedOutput()
	if err != nil {
		return "", fmt.Errorf("go test -c ./%s: %v\n%s", pkgRel, err, tail(string(out), 2000))
	}
	r.bins[key] = bin
	return bin, nil
}

func (r *replayer) replayOne(v *gosym.Violation) {
	pkgRel := strings.TrimPrefix(v.Pkg, r.module+"/")
	bin, err := r.buildMode(pkgRel, v.Kind == "race")
	if err != nil {
		v.ReplayOut = err.Error()
		return
	}
	if v.Kind == "race" {
		// a race needs the right interleaving: repeat the native run under the race detector
		for attempt := 0; attempt < 40 && !v.Replayed; attempt++ {
			cmd := exec.Command(bin, "-test.run", "^TestVerifReplay$", "-test.timeout", "60s", "-test.v")
			cmd.Dir = filepath.Join(repoDir, pkgRel)
			cmd.Env = append(os.Environ(), "VERIF_REPLAY="+v.ReplayFile, "VERIF_HARNESS="+v.Harness, fmt.Sprintf("GOMAXPROCS=%d", 1+attempt%8))
			out, _ := cmd.CombinedOutput()
			v.ReplayOut = tail(string(out), 4000)
			// the native report must involve the function the engine blamed, not just any race
			fn := v.Tags["race-site"]
			if k := strings.LastIndex(fn, "."); k >= 0 {
				fn = fn[k+1:]
			}
			v.Replayed = strings.Contains(string(out), "DATA RACE") && (fn == "" || strings.Contains(string(out), "."+fn+"("))
		}
		return
	}
	if v.Kind == "unstable" {
		// nondeterminism (map iteration order, scheduling): repeat the native run and look for two different values
		seen := map[string]bool{}
		for attempt := 0; attempt < 200 && !v.Replayed; attempt++ {
			cmd := exec.Command(bin, "-test.run", "^TestVerifReplay$", "-test.timeout", "60s", "-test.v")
			cmd.Dir = filepath.Join(repoDir, pkgRel)
			cmd.Env = append(os.Environ(), "VERIF_REPLAY="+v.ReplayFile, "VERIF_HARNESS="+v.Harness)
			out, _ := cmd.CombinedOutput()
			for _, line := range strings.Split(string(out), "\n") {
				if strings.HasPrefix(line, "VERIF-STABLE "+v.Label+"=") {
					seen[line] = true
				}
			}
			v.ReplayOut = tail(string(out), 2000)
			v.Replayed = len(seen) >= 2
		}
		return
	}
	limit := 90 * time.Second
	if v.Kind == "bound" || v.Kind == "deadlock" {
		limit = 20 * time.Second // a hang is confirmed by a wall-clock timeout on a tiny input
	}
	cmd := exec.Command(bin, "-test.run", "^TestVerifReplay$", "-test.timeout", "300s", "-test.v")
	cmd.Dir = filepath.Join(repoDir, pkgRel)
	cmd.Env = append(os.Environ(), "VERIF_REPLAY="+v.ReplayFile, "VERIF_HARNESS="+v.Harness)
	done := make(chan struct{})
	var out []byte
	go func() { out, _ = cmd.CombinedOutput(); close(done) }()
	select {
	case <-done:
	case <-time.After(limit):
		if cmd.Process != nil {
			cmd.Process.Kill()
		}
		<-done
		out = append(out, []byte("\nVERIF-REPLAY-TIMEOUT\n")...)
	}
	s := string(out)
	v.ReplayOut = tail(s, 4000)
	switch v.Kind {
	case "assert":
		v.Replayed = strings.Contains(s, "VERIF-ASSERT-FAIL "+v.Label+"\n")
		if !v.Replayed && v.SchedDependent {
			// the counterexample needs an interleaving: repeat the run with random delays at the VM's scheduling
			// points (hooks under the verif build tag); it is confirmed only if one of the runs fails the same assertion
			chaosDeadline := time.Now().Add(150 * time.Second) // the repeated runs of one counterexample share a wall budget
			for attempt := 1; attempt <= 150 && !v.Replayed && time.Now().Before(chaosDeadline); attempt++ {
				c := exec.Command(bin, "-test.run", "^TestVerifReplay$", "-test.timeout", "60s", "-test.v")
				c.Dir = filepath.Join(repoDir, pkgRel)
				c.Env = append(os.Environ(), "VERIF_REPLAY="+v.ReplayFile, "VERIF_HARNESS="+v.Harness, fmt.Sprintf("VERIF_CHAOS_SEED=%d", attempt), fmt.Sprintf("GOMAXPROCS=%d", 2+attempt%7))
				o, _ := c.CombinedOutput()
				if strings.Contains(string(o), "VERIF-ASSERT-FAIL "+v.Label+"\n") {
					v.Replayed = true
					v.ReplayOut = fmt.Sprintf("reproduced with VERIF_CHAOS_SEED=%d\n", attempt) + tail(string(o), 3000)
				}
			}
		}
	case "panic":
		v.Replayed = strings.Contains(s, "VERIF-PANIC") || strings.Contains(s, "panic:") || strings.Contains(s, "fatal error:")
	case "deadlock":
		v.Replayed = strings.Contains(s, "all goroutines are asleep") || strings.Contains(s, "VERIF-REPLAY-TIMEOUT") || strings.Contains(s, "test timed out")
	case "bound":
		// unbounded execution shows natively as a hang or, for unbounded recursion, as Go's fatal stack overflow
		v.Replayed = strings.Contains(s, "VERIF-REPLAY-TIMEOUT") || strings.Contains(s, "test timed out") || strings.Contains(s, "goroutine stack exceeds") || strings.Contains(s, "fatal error: stack overflow")
	case "race":
		v.Replayed = strings.Contains(s, "DATA RACE")
	}
	if strings.Contains(s, "VERIF-REPLAY-INVALID") {
		v.Replayed = false
	}
}

func (r *replayer) replayAll(vs []*gosym.Violation, workers int) {
	// build binaries first (sequential), then run in parallel
	for _, v := range vs {
		r.buildMode(strings.TrimPrefix(v.Pkg, r.module+"/"), v.Kind == "race")
	}
	sem := make(chan struct{}, workers)
	done := make(chan struct{})
	for _, v := range vs {
		v := v
		sem <- struct{}{}
		go func() {
			r.replayOne(v)
			<-sem
			done <- struct{}{}
		}()
	}
	for range vs {
		<-done
	}
}
