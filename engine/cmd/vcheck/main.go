package main

import (
	"encoding/json"
	"flag"
	"fmt"
	"os"
	"strconv"
	"strings"
	"time"

	"verif/engine/gosym"
)

func main() {
	if len(os.Args) < 2 {
		fmt.Println("usage: vcheck explore|run ...")
		os.Exit(2)
	}
	switch os.Args[1] {
	case "explore":
		explore(os.Args[2:])
	case "externals":
		P, err := gosym.Load(repoDir, []string{harnessDir}, []string{"./homescript/..."})
		if err != nil {
			fmt.Println(err)
			os.Exit(2)
		}
		fs, gs := P.Externals()
		for k, v := range fs {
			fmt.Printf("FUNC %s  <- %d e.g. %s\n", k, len(v), v[0])
		}
		for k, v := range gs {
			fmt.Printf("GLOBAL %s  <- %d e.g. %s\n", k, len(v), v[0])
		}
	case "run":
		runCmd(os.Args[2:])
	case "replay":
		replayCmd(os.Args[2:])
	default:
		fmt.Println("unknown command")
		os.Exit(2)
	}
}

func explore(args []string) {
	fs := flag.NewFlagSet("explore", flag.ExitOnError)
	pkg := fs.String("pkg", "", "package import path suffix (after module path)")
	fn := fs.String("func", "", "harness function")
	workers := fs.Int("workers", 16, "workers")
	maxPaths := fs.Int64("maxpaths", 0, "max paths")
	steps := fs.Int("steps", 0, "max steps")
	fixed := fs.String("fix", "", "name=v,name=v pins NdIntRange selectors")
	params := fs.String("params", "", "name=v,... harness params")
	full := fs.Bool("full", false, "print full result")
	fs.Parse(args)
	parseKV := func(s string) map[string]int {
		m := map[string]int{}
		for _, kv := range strings.Split(s, ",") {
			if i := strings.Index(kv, "="); i > 0 {
				v, _ := strconv.Atoi(kv[i+1:])
				m[kv[:i]] = v
			}
		}
		return m
	}
	t0 := time.Now()
	P, err := gosym.Load(repoDir, []string{harnessDir}, []string{"./homescript/..."})
	if err != nil {
		fmt.Println(err)
		os.Exit(2)
	}
	fmt.Printf("loaded in %.1fs module=%s\n", time.Since(t0).Seconds(), P.Module)
	gosym.RegisterAPI(P.Module + "/homescript/errors")
	cfg := &gosym.HarnessCfg{Pkg: P.Module + "/" + *pkg, Func: *fn, Workers: *workers, MaxPaths: *maxPaths}
	cfg.Opts.MaxSteps = *steps
	cfg.Fixed = parseKV(*fixed)
	for _, sp := range props {
		for _, h := range sp.Harnesses {
			if h.Func == *fn && cfg.Overrides == nil {
				cfg.Overrides = h.Overrides
				if cfg.Opts.MaxSteps == 0 {
					cfg.Opts = h.Opts
				}
			}
		}
	}
	cfg.Params = parseKV(*params)
	res := gosym.Explore(P, cfg)
	if *full {
		b, _ := json.MarshalIndent(res, "", " ")
		fmt.Println(string(b))
		return
	}
	fmt.Printf("paths=%d outcomes=%v wall=%.1fs queries=%d exhausted=%v\nreached=%v\n", res.Paths, res.ByOutcome, res.WallS, res.Stats.Queries, res.Exhausted, res.Reached)
	for m, n := range res.InconclusiveMsgs {
		fmt.Printf("inconclusive x%d: %s\n", n, m)
	}
	for k, v := range res.Violations {
		fmt.Printf("VIOL %s x%d vals=%v msg=%s\n", k, v.Count, v.Vals, v.Msg)
	}
}

// replayCmd re-runs one recorded counterexample natively against /repo's working tree:
// vcheck replay /verif/replay/<prop>/<file>.json   (exit 1 if it reproduces, 0 if not)
func replayCmd(args []string) {
	if len(args) != 1 {
		fmt.Println("usage: vcheck replay <replay.json>")
		os.Exit(2)
	}
	b, err := os.ReadFile(args[0])
	if err != nil {
		fmt.Println(err)
		os.Exit(2)
	}
	var rf struct {
		Property string            `json:"property"`
		Pkg      string            `json:"pkg"`
		Harness  string            `json:"harness"`
		Kind     string            `json:"kind"`
		Label    string            `json:"label"`
		Tags     map[string]string `json:"tags"`
		Sig      string            `json:"sig"`
	}
	if err := json.Unmarshal(b, &rf); err != nil {
		fmt.Println(err)
		os.Exit(2)
	}
	module := moduleOfRepo()
	rp, _ := newReplayer(module)
	v := &gosym.Violation{Harness: rf.Harness, Pkg: module + "/" + rf.Pkg, Kind: rf.Kind, Label: rf.Label, Tags: rf.Tags, Sig: rf.Sig, ReplayFile: args[0]}
	for k := range props {
		if props[k].ID != rf.Property {
			continue
		}
		for _, h := range props[k].Harnesses {
			if h.Func == rf.Harness && (h.Opts.Sched || h.Opts.MapOrder) {
				v.SchedDependent = true
			}
		}
	}
	rp.replayOne(v)
	fmt.Println(v.ReplayOut)
	if v.Replayed {
		fmt.Printf("REPRODUCED property=%s %s\n", rf.Property, rf.Sig)
		os.Exit(1)
	}
	fmt.Printf("not reproduced property=%s %s\n", rf.Property, rf.Sig)
}

func moduleOfRepo() string {
	b, _ := os.ReadFile(repoDir + "/go.mod")
	for _, l := range strings.Split(string(b), "\n") {
		if strings.HasPrefix(l, "module ") {
			return strings.TrimSpace(l[len("module "):])
		}
	}
	return ""
}
