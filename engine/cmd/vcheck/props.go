package main

import "verif/engine/gosym"

var _ = gosym.Options{}

var props = []PropSpec{
	{
		ID: "C06", Level: "other",
		Explanation: "differential bounded symbolic execution: the real lexer and a reference maximal-munch lexer written from grammar.ebnf run on the same window of unconstrained runes from an unconstrained start location; every rune comparison is decided by the SMT solver, token kind/value/span/file/cursor equality are asserted as terms",
		Harnesses: []HarnessSpec{
			{Pkg: "homescript/lexer", Func: "VerifHarness_LexStep", Quick: map[string]int{"K": 4}, Thor: map[string]int{"K": 6}, Require: []string{"returned"},
				What: "inductive step: one NextToken from any state (any remaining text of <=K runes, any location) vs reference lexer, plus representation invariant of the next state"},
			{Pkg: "homescript/lexer", Func: "VerifHarness_LexStepPrefixed", Quick: map[string]int{"K": 3}, Thor: map[string]int{"K": 5}, Require: []string{"returned"},
				What: "same step behind each of 23 fixed construct openers (escapes, comments, numbers, keywords)"},
			{Pkg: "homescript/lexer", Func: "VerifHarness_LexDiff", Quick: map[string]int{"K": 2}, Thor: map[string]int{"K": 3}, Require: []string{"eof"},
				What: "whole token stream of every text of <=K Unicode scalar values vs reference lexer (cross-check of the induction)"},
		},
	},
	{
		ID: "C05", Level: "other",
		Explanation: "bounded symbolic execution of the real lexer over a window of unconstrained runes; the SMT solver decides every rune comparison, so each path stands for a class of inputs",
		Harnesses: []HarnessSpec{
			{Pkg: "homescript/lexer", Func: "VerifHarness_LexSmoke", Quick: map[string]int{"K": 3}, Thor: map[string]int{"K": 5}, Require: []string{"returned"},
				What: "one NextToken call on any window of <=K valid runes: no panic, progress, cursor in range"},
		},
	},
}
