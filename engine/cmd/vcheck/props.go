package main

import "verif/engine/gosym"

var _ = gosym.Options{}

var props = []PropSpec{
	{
		ID: "C08", Level: "other",
		Explanation: "bounded symbolic execution of the position producers and of both renderers: lexer token/error spans from an unconstrained start location over a window of unconstrained runes; both Display functions on spans whose six fields are solver variables constrained only by validity; every syntax error and diagnostic of edited seed programs checked against the text and rendered; runtime interrupt / caught-exception positions checked against the failing construct on both back ends",
		Harnesses: []HarnessSpec{
			{Pkg: "homescript/lexer", Func: "VerifHarness_LexStep", Quick: map[string]int{"K": 3}, Thor: map[string]int{"K": 5}, Require: []string{"returned"},
				What: "lexer: token spans are the exact inclusive range of the lexeme and name the file; error spans are ordered, inside the text and name the file (any start location, any window of <=K runes)"},
			{Pkg: "homescript", Func: "VerifHarness_RenderSpans", Quick: map[string]int{"L": 3}, Thor: map[string]int{"L": 4}, Require: []string{"rendered"},
				What: "errors.Error.Display and diagnostic.Diagnostic.Display succeed on every valid span (all six fields symbolic, validity B.6 assumed, or the whole-file position) of texts of 1..L lines of length 0..3"},
			{Pkg: "homescript", Func: "VerifHarness_ReportedSpans", Quick: map[string]int{}, Require: []string{"analysed"},
				What: "8 seed programs x every token position x {replace, insert after, truncate} x 18 lexemes (incl. illegal character, newline, unterminated string/comment) x {one line, one token per line}: every syntax error and diagnostic position is valid for the text and renders"},
			{Pkg: "homescript", Func: "VerifHarness_RuntimeSpans", Quick: map[string]int{}, Require: []string{"ran"},
				What: "uncaught throw, caught throw (e.line/e.column), index-out-of-range and division-by-zero fatals behind 0..2 blank lines, both back ends: the reported position is valid and lies on the failing construct's line"},
		},
	},
	{
		ID: "C20", Level: "translation_validation",
		Explanation: "the fuzzer's Transformer is executed symbolically with math/rand replaced by fork variables (every draw may take any value; bounded number of non-default draws per path), the variant is printed and re-analysed (the project's own path) and original and variant run on the VM in the same path with unconstrained host inputs; outputs are compared as SMT terms (bit-vector / floating-point identities decided by the solver)",
		Harnesses: []HarnessSpec{
			{Pkg: "homescript", Func: "VerifHarness_FuzzTransform", Quick: map[string]int{"passes": 1}, Thor: map[string]int{"passes": 2}, ThorPaths: 400000, ThorSecs: 1500, Require: []string{"ran"},
				Opts: gosym.Options{RandBudget: 1},
				What: "10 programs of the stated class (arithmetic/comparison on unconstrained ints and floats, multiplication by K in 0..3, literals, if/else, loops with break/continue, casts, functions and globals, try/match, none/null literals) x every combination of <= 2 non-default random draws: variant accepted, same outcome and output"},
		},
	},
	{
		ID: "C19", Level: "translation_validation",
		Explanation: "print -> re-lex -> re-parse (-> re-analyse -> run) inside one symbolic path for both printers on a program corpus with unconstrained host inputs, a string literal whose content runes are solver variables, and Optimize(p) vs p on the VM; outputs and outcomes are compared as SMT terms",
		Harnesses: []HarnessSpec{
			{Pkg: "homescript", Func: "VerifHarness_PrintRoundTrip", Quick: map[string]int{}, Require: []string{"printed", "ran"},
				What: "52 programs x {parsed-tree printer, analysed-tree printer}: printed text parses, printing is a fixed point, acceptance preserved, VM output/outcome identical with unconstrained host inputs"},
			{Pkg: "homescript", Func: "VerifHarness_PrintStringLiteral", Quick: map[string]int{"K": 2}, Thor: map[string]int{"K": 3}, Require: []string{"printed"},
				What: "string literal of <=K unconstrained ASCII runes: printed literal lexes and parses back to the same content"},
			{Pkg: "homescript", Func: "VerifHarness_Optimizer", Quick: map[string]int{"D": 1}, Thor: map[string]int{"D": 2}, Require: []string{"ran"},
				What: "Optimize(p) vs p on the VM for the 52-program corpus and the nesting family (diverging statements followed by marker prints), unconstrained host inputs"},
		},
	},
	{
		ID: "C15", Level: "other",
		Explanation: "bounded symbolic execution of analyzer, compiler, VM and tree interpreter on a module-graph family served by a harness host (visibility of function/global/type, which are imported, missing item/module, 2- and 3-cycles, overlapping private names as selectors) in map-order mode, so the orders in which host and compiler visit the modules are fork variables",
		Harnesses: []HarnessSpec{
			{Pkg: "homescript", Func: "VerifHarness_Modules", Quick: map[string]int{}, Require: []string{"analyzed", "ran"},
				What: "3 modules (main, m1, m2) x pub/import switches for a function, a global and a type x {missing item, missing module, 2-cycle, 3-cycle}: diagnostic iff a linking rule is broken; accepted graphs print values identifying whose body ran against whose globals (both back ends), globals initialised once"},
			{Pkg: "homescript", Func: "VerifHarness_Modules", Quick: map[string]int{"pinned": 1}, Require: []string{"analyzed", "ran"},
				Opts: gosym.Options{MapOrder: true, MapOrderBudget: 1},
				What: "one representative valid 3-module graph under every single deviating map iteration order (orders in which analyzer, compiler and VM visit modules, scopes and function tables)"},
		},
	},
	{
		ID: "C14", Level: "other",
		Explanation: "bounded symbolic execution of analyse + compile + run (both back ends) in map-order nondeterminism mode: every `range` over a Go map inside the repository's packages is a fork variable over its orders (bounded number of deviating ranges per path); the observable result (sorted diagnostics, outputs, outcomes) of every explored path must equal the first path's, and a second run inside one path must equal the first",
		Harnesses: []HarnessSpec{
			{Pkg: "homescript", Func: "VerifHarness_Determinism", Quick: map[string]int{}, Require: []string{"ran"},
				Opts: gosym.Options{MapOrder: true, MapOrderBudget: 1}, QuickPaths: 0,
				What: "6 programs (3-field object printed/compared, any-object keys/json, several warnings, 3 modules with same-named items, many locals, list of objects): identical observable result on every order of every single map range (1 deviating range per path; thorough 2)"},
		},
	},
	{
		ID: "C16", Level: "other",
		Explanation: "bounded symbolic execution of call histories against one runtime.VM (NewVM, SpawnSync, spawnCore, Wait, HandleTermination, Core.Run incl. goroutines, channels and the RWMutex under the engine's scheduler); targets are selectors, argument values unconstrained solver variables; a reference state machine tracks the global as a term; a call that blocks forever is the engine's deadlock outcome",
		Harnesses: []HarnessSpec{
			{Pkg: "homescript", Func: "VerifHarness_HostCalls", Quick: map[string]int{"H": 2}, Thor: map[string]int{"H": 4}, Require: []string{"called", "history-done"},
				What: "histories of H calls over {sub(a,b), inc(d) on a global, early(n) returning from inside for+try, boom(a) throwing, lst(a) returning a list}: declared argument order, declared result, globals as earlier calls left them, no registered core left, failure (not blocking) after a failed call"},
		},
	},
	{
		ID: "C17", Level: "other",
		Explanation: "bounded schedule exploration inside the engine: every interpreted goroutine runs under a baton, scheduling decisions at blocking/sync operations are fork variables (bounded number of deviations from the default order); spawn arguments are solver variables; a lockset (Eraser) monitor watches every Go map shared between goroutines; the Go scheduler's preemptive interleavings are NOT enumerated",
		Harnesses: []HarnessSpec{
			{Pkg: "homescript", Func: "VerifHarness_Spawn", Quick: map[string]int{}, Require: []string{"returned"},
				Opts: gosym.Options{Sched: true, SchedBudget: 2, RaceMonitor: true}, ThorPaths: 0,
				What: "1..2 spawned cores with symbolic arguments printing a non-commutative result and updating a global, <= 2 scheduling deviations: each print once and whole with the spawn's arguments, Wait returns after all cores, no map shared without a common lock"},
		},
	},
	{
		ID: "C10", Level: "other",
		Explanation: "bounded symbolic execution of Core.Run / VM.Wait / interpreter.Execute with a context under harness control whose cancellation instant (the poll at which Done() becomes ready) is a fork variable; goroutines, channels and the RWMutex of VM.Wait are executed by the engine's cooperative scheduler; a loop that never polls shows up as an exceeded step bound (termination obligation), replayed natively under a wall-clock timeout",
		Harnesses: []HarnessSpec{
			{Pkg: "homescript", Func: "VerifHarness_Cancel", Quick: map[string]int{"P": 6}, Thor: map[string]int{"P": 30}, Require: []string{"returned"},
				Opts: gosym.Options{MaxSteps: 4000000, BoundIsViolation: true},
				What: "7 programs (empty/while/call/try/nested infinite loops, a finite loop, a spawned infinite core) x 2 back ends x every cancellation poll 0..P: termination interrupt (or own outcome), bounded polls after the flip, no host crash, no core left running or blocked"},
		},
	},
	{
		ID: "C09", Level: "other",
		Explanation: "bounded symbolic execution of compile + Core.Run / interpreter.callFunc with the configured limits as solver variables (the code only compares against them, so the solver finds the boundary values) and the recursion depth as a symbolic host input; outcomes are asserted to be completion with unchanged output or the corresponding overflow interrupt, never a host crash, plus monotonicity in the limit and equal behaviour for 1 and 4 loop iterations",
		Harnesses: []HarnessSpec{
			{Pkg: "homescript", Func: "VerifHarness_CallDepthLimit", Quick: map[string]int{"N": 6, "M": 16}, Thor: map[string]int{"N": 70, "M": 90}, Require: []string{"ran"},
				What: "recursion depth N in 0..Nmax (symbolic) vs symbolic call-depth limit in 0..M on VM and tree interpreter: no crash, completion or stack overflow, enforcement beyond one scheduling quantum, non-interference, monotonic in the limit"},
			{Pkg: "homescript", Func: "VerifHarness_StackLimit", Quick: map[string]int{"W": 40, "M": 64}, Thor: map[string]int{"W": 80, "M": 128}, Require: []string{"ran"},
				What: "expression nesting / list width W vs symbolic operand-stack limit: no crash, completion or overflow, generous limits never stop the program"},
			{Pkg: "homescript", Func: "VerifHarness_MemoryLimit", Quick: map[string]int{}, Require: []string{"ran"},
				What: "MaxMemorySize in {0,1,2,3,4,6,8,12,16,64}: loop calling a function with locals behaves the same for 1 and 4 iterations (frames/memory returned), out-of-memory is an interrupt"},
		},
	},
	{
		ID: "C03", Level: "other",
		Explanation: "bounded symbolic execution of the real analyzer (through Parse+Analyze) over rule templates whose type kinds, arities, operators and syntactic positions are selectors explored exhaustively by the engine; oracle: fault switch <=> at least one error-level diagnostic, recorded expression/variable types equal the rule's result type; Analyzer.TypeCheck is compared with a reference compatibility relation on type trees",
		Harnesses: []HarnessSpec{
			{Pkg: "homescript", Func: "VerifHarness_Rules", Quick: map[string]int{}, Require: []string{"analyzed"},
				What: "17 rule templates (let/assignment/condition/operand/arity/argument/return/branch/iterator mismatch, unknown identifier/type/member, break/continue placement incl. closures in loops, duplicate definitions, implicit any, main shape, return after a closure literal, non-constant global, container element/index/member types) x type kinds x 7 syntactic positions: rejected iff a rule is broken"},
			{Pkg: "homescript", Func: "VerifHarness_ExprTypes", Quick: map[string]int{}, Require: []string{"analyzed", "typed"},
				What: "`let v = L op R` for 19 operators x 4x4 scalar type pairs: accepted iff admissible, recorded expression and variable types are the rule's result type"},
			{Pkg: "homescript", Func: "VerifHarness_TypeCheck", Quick: map[string]int{"depth": 1}, Thor: map[string]int{"depth": 2}, ThorPaths: 500000, ThorSecs: 1200, Require: []string{"checked"},
				What: "Analyzer.TypeCheck(got, expected) vs reference compatibility on all pairs of type trees of the stated depth (11 kinds, object keys from {a,b})"},
		},
	},
	{
		ID: "C07", Level: "other",
		Explanation: "bounded symbolic execution of the real Pratt parser (parser.expression) on `a OP b OP c OP d` where every operator token kind is a solver variable ranging over all infix and assignment operator tokens (lexer replaced by a stub serving the kinds); the parsed tree's bracket structure is compared with a reference splitter written from the operator table in the property statement; prefix/postfix/as/layout variants run through the real lexer",
		Harnesses: []HarnessSpec{
			{Pkg: "homescript/parser", Func: "VerifHarness_Precedence", Quick: map[string]int{"OPS": 2}, Thor: map[string]int{"OPS": 3}, Require: []string{"parsed"},
				Overrides: map[string]string{"(*~/homescript/lexer.Lexer).NextToken": "~/homescript/lexer.VerifStubNextToken"},
				What: "every ordered pair (thorough: triple) of binary operators with symbolic token kinds: bracket structure = operator table (assignment < || < && < | < ^ < & < equality < comparison < shift < additive < multiplicative < **, ** right-assoc, others left-assoc)"},
			{Pkg: "homescript/parser", Func: "VerifHarness_PrefixPostfix", Quick: map[string]int{}, Require: []string{"parsed"},
				What: "prefix (! - ?) x postfix (call, index, member) x 13 binary operators on both operands; whitespace/comment and parenthesised-operand layout variants give the same tree"},
			{Pkg: "homescript/parser", Func: "VerifHarness_AsAndCommas", Quick: map[string]int{}, Require: []string{"parsed"},
				What: "`as` binds between multiplicative and **; trailing comma in call and list"},
		},
	},
	{
		ID: "C13", Level: "other",
		Explanation: "algebraic laws asserted as SMT terms over symbolic values of one static type (type shape from selectors; list lengths, none/some, any-object key sets and all scalar payloads independent solver variables): IsEqual reflexive/symmetric/transitive and equal to reference structural equality, Clone equal and unshared, both value libraries render the same text, to_json -> parse_json -> cast round trip equal",
		Harnesses: []HarnessSpec{
			{Pkg: "homescript", Func: "VerifHarness_EqLaws", Quick: map[string]int{"depth": 1}, Thor: map[string]int{"depth": 2}, ThorPaths: 400000, ThorSecs: 1200, Require: []string{"compared"},
				What: "two values of one static type, both libraries: reflexive, symmetric, == iff same structural content (B.5); VM Clone equal to original and sharing no mutable state"},
			{Pkg: "homescript", Func: "VerifHarness_EqTransitive", Quick: map[string]int{"depth": 0}, Thor: map[string]int{"depth": 1}, Require: []string{"compared"},
				What: "three values of one static type: transitivity"},
			{Pkg: "homescript", Func: "VerifHarness_DisplayAgree", Quick: map[string]int{"depth": 1}, Thor: map[string]int{"depth": 2}, ThorPaths: 200000, ThorSecs: 900, Require: []string{"displayed"},
				What: "both value libraries render a value as the same text (insertion-order map iteration; ordering nondeterminism is C14's subject)"},
			{Pkg: "homescript", Func: "VerifHarness_JsonRoundTrip", Quick: map[string]int{"depth": 1}, Require: []string{"round-tripped"},
				What: "v.to_json().parse_json() as T is equal to v for JSON-representable v (finite floats), through the real members and DeepCast, JSON text modelled by contract"},
		},
	},
	{
		ID: "C12", Level: "other",
		Explanation: "bounded symbolic execution of DeepCast of both value libraries on a symbolic (value tree, type tree) pair (kinds from selectors, scalar payloads unconstrained) against the conformance reference B.4; program-level cast templates and the VM host boundary (SpawnSync argument validation) with symbolic payloads",
		Harnesses: []HarnessSpec{
			{Pkg: "homescript", Func: "VerifHarness_Cast", Quick: map[string]int{"depth": 1}, Thor: map[string]int{"depth": 2}, ThorPaths: 600000, ThorSecs: 1500, Require: []string{"returned"},
				What: "DeepCast(v, T, allowCasts) for every (value shape, type shape) of the stated depth, both libraries: admitted iff the reference admits, admitted value equals the reference conversion"},
			{Pkg: "homescript", Func: "VerifHarness_CastPrograms", Quick: map[string]int{}, Require: []string{"ran"},
				What: "6 program templates x 2 back ends: a rejected `as` / `let x: T = <any>` / parse_json cast is catchable and later statements run unaffected"},
			{Pkg: "homescript", Func: "VerifHarness_CastPath", Quick: map[string]int{}, Require: []string{"ran"},
				What: "VM cast errors name the offending path (list index, object field, option inner)"},
			{Pkg: "homescript", Func: "VerifHarness_HostBoundary", Quick: map[string]int{"depth": 1}, Require: []string{"called"},
				What: "VM.SpawnSync refuses exactly the argument values that do not conform to the declared parameter type (value shapes depth 1 x leaf types)"},
		},
	},
	{
		ID: "C18", Level: "other",
		Explanation: "the analyzer's own member tables (ast.<Type>.Fields) are executed in the engine with a selector over (type kind, member); each offered member is looked up on runtime values of both value libraries and called with arguments of the advertised types whose payloads (ints, floats, bools, indices) are unconstrained solver variables; index-taking operations are compared with the wrap/interrupt law on term level",
		Harnesses: []HarnessSpec{
			{Pkg: "homescript", Func: "VerifHarness_Members", Quick: map[string]int{}, Require: []string{"looked-up", "vm-called", "tree-called"},
				What: "(type kind x member) product exhaustively: member exists in both runtimes, call with advertised argument types does not panic, result kind is the advertised one"},
			{Pkg: "homescript", Func: "VerifHarness_IndexLaw", Quick: map[string]int{"N": 3}, Thor: map[string]int{"N": 5}, Require: []string{"returned"},
				What: "l[i], l.remove(i), l.insert(i, e) on lists of 0..N symbolic elements with an unconstrained 64-bit index, both value libraries: wrapped element or interrupt, never a crash or another element"},
		},
	},
	{
		ID: "C11", Level: "other",
		Explanation: "bounded symbolic execution of the whole pipeline on a generated nesting family (every nesting of the 11 construct kinds up to depth D around each of the 5 exits), with the exit condition and the failing index as solver variables; VM and tree interpreter outputs/outcomes are compared with a definitional reference interpreter over the parsed tree",
		Harnesses: []HarnessSpec{
			{Pkg: "homescript", Func: "VerifHarness_Nest", Quick: map[string]int{"mode": 1, "D": 2}, Thor: map[string]int{"mode": 1, "D": 3}, Require: []string{"ran", "accepted"},
				What: "nesting family on the VM vs reference interpreter"},
			{Pkg: "homescript", Func: "VerifHarness_Nest", Quick: map[string]int{"mode": 16, "D": 2}, Thor: map[string]int{"mode": 16, "D": 3}, Require: []string{"ran", "accepted"},
				What: "nesting family on the tree interpreter vs reference interpreter"},
		},
	},
	{
		ID: "C01", Level: "other",
		Explanation: "bounded symbolic execution of the whole pipeline (lexer, parser, analyzer, compiler, VM incl. its goroutine/channel hand-off) on program families whose operand values are unconstrained solver variables and whose operators/types are selectors; the VM's output is compared as SMT terms with a definitional reference",
		Harnesses: []HarnessSpec{
			{Pkg: "homescript", Func: "VerifHarness_Ops", Quick: map[string]int{"mode": 1}, Require: []string{"ran", "accepted"},
				What: "println(L op R) for 19 infix operators x {int,float,bool,str}, operand values unconstrained, vs reference operator semantics (B.3)"},
			{Pkg: "homescript", Func: "VerifHarness_Templates", Quick: map[string]int{"mode": 1}, Require: []string{"ran", "accepted"},
				What: "28 catalogue programs (scoping, aliasing, for-snapshot, value of if/match/block/try, evaluation order, loops, recursion, closures, indexing, throws through frames, globals) with unconstrained host inputs, VM vs definitional reference interpreter"},
			{Pkg: "homescript", Func: "VerifHarness_Nest", Quick: map[string]int{"mode": 1, "D": 1}, Thor: map[string]int{"mode": 1, "D": 2}, Require: []string{"ran", "accepted"},
				What: "nesting family (see C11) on the VM vs reference interpreter"},
		},
	},
	{
		ID: "C02", Level: "other",
		Explanation: "bounded symbolic execution of compile+run on both back ends with every Go run-time failure (nil dereference, index, failed type assertion, integer division, negative shift, explicit panic, deadlock) as a path outcome; operand values are solver variables so the solver produces the crashing operands",
		Harnesses: []HarnessSpec{
			{Pkg: "homescript", Func: "VerifHarness_Ops", Quick: map[string]int{"mode": 2}, Require: []string{"ran", "accepted"},
				What: "println(L op R) for every analyzer-accepted (operator, type) pair, operand values unconstrained: no Go panic on VM or tree interpreter"},
			{Pkg: "homescript", Func: "VerifHarness_Templates", Quick: map[string]int{"mode": 2}, Opts: gosym.Options{MaxSteps: 1000000, BoundIsViolation: true}, Require: []string{"ran", "accepted"},
				What: "28 catalogue programs, unconstrained host inputs: no Go panic on either back end"},
			{Pkg: "homescript", Func: "VerifHarness_Nest", Quick: map[string]int{"mode": 2, "D": 2}, Thor: map[string]int{"mode": 2, "D": 3}, Require: []string{"ran", "accepted"},
				What: "nesting family: no Go panic on either back end"},
		},
	},
	{
		ID: "C04", Level: "translation_validation",
		Explanation: "the same analysed program is run on the VM and on the tree-walking interpreter inside one symbolic path; outputs (strings with symbolic number pieces) and outcome classes are compared as SMT terms",
		Harnesses: []HarnessSpec{
			{Pkg: "homescript", Func: "VerifHarness_Ops", Quick: map[string]int{"mode": 4}, Require: []string{"ran", "accepted"},
				What: "println(L op R) operator family: VM vs tree interpreter"},
			{Pkg: "homescript", Func: "VerifHarness_Templates", Quick: map[string]int{"mode": 4}, Opts: gosym.Options{MaxSteps: 1000000, BoundIsViolation: true}, Require: []string{"ran", "accepted"},
				What: "28 catalogue programs: VM vs tree interpreter"},
			{Pkg: "homescript", Func: "VerifHarness_Nest", Quick: map[string]int{"mode": 4, "D": 2}, Thor: map[string]int{"mode": 4, "D": 3}, Require: []string{"ran", "accepted"},
				What: "nesting family: VM vs tree interpreter"},
		},
	},
	{
		ID: "C06", Level: "other",
		Explanation: "differential bounded symbolic execution: the real lexer and a reference maximal-munch lexer written from grammar.ebnf run on the same window of unconstrained runes from an unconstrained start location; every rune comparison is decided by the SMT solver, token kind/value/span/file/cursor equality are asserted as terms",
		Harnesses: []HarnessSpec{
			{Pkg: "homescript/lexer", Func: "VerifHarness_LexStep", Quick: map[string]int{"K": 4}, Thor: map[string]int{"K": 6}, Require: []string{"returned"},
				What: "inductive step: one NextToken from any state (any remaining text of <=K runes, any location) vs reference lexer, plus representation invariant of the next state"},
			{Pkg: "homescript/lexer", Func: "VerifHarness_LexStepPrefixed", Quick: map[string]int{"K": 3}, Thor: map[string]int{"K": 5}, Require: []string{"returned"},
				What: "same step behind each of 23 fixed construct openers (escapes, comments, numbers, keywords)"},
			{Pkg: "homescript/lexer", Func: "VerifHarness_LexDiff", Quick: map[string]int{"K": 2}, Thor: map[string]int{"K": 3}, Require: []string{"eof"},
				What: "whole token stream of every text of <=K Unicode scalar values vs reference lexer (cross-check of the induction)"},
		},
	},
	{
		ID: "C05", Level: "other",
		Explanation: "bounded symbolic execution of the real lexer over a window of unconstrained runes; the SMT solver decides every rune comparison, so each path stands for a class of inputs",
		Harnesses: []HarnessSpec{
			{Pkg: "homescript/parser", Func: "VerifHarness_ParseTokens", Quick: map[string]int{"L": 3}, Thor: map[string]int{"L": 5}, ThorPaths: 3000000, ThorSecs: 2400, Require: []string{"parsed"},
				Opts: gosym.Options{MaxSteps: 300000, BoundIsViolation: true},
				Overrides: map[string]string{"(*~/homescript/lexer.Lexer).NextToken": "~/homescript/lexer.VerifStubNextToken", "(~/homescript/lexer.TokenKind).String": "~/homescript/lexer.VerifStubKindString"},
				What: "Parser.Parse over every sequence of <=L tokens whose kinds are solver variables (lexer replaced by a stub serving the kinds, optional lexer error at any position): no panic, terminates within the step bound"},
			{Pkg: "homescript", Func: "VerifHarness_EditAnalyze", Quick: map[string]int{}, Require: []string{"done", "analyzed", "syntax-error"},
				Opts: gosym.Options{MaxSteps: 1500000, BoundIsViolation: true},
				Overrides: map[string]string{"(*~/homescript/lexer.Lexer).NextToken": "~/homescript/lexer.VerifStubNextToken", "(~/homescript/lexer.TokenKind).String": "~/homescript/lexer.VerifStubKindString"},
				What: "8 seed programs x every token position x {replace by a token of symbolic kind, delete, truncate}: Parse + Analyze (with an importable module) never panic and terminate"},
			{Pkg: "homescript/lexer", Func: "VerifHarness_LexSmoke", Quick: map[string]int{"K": 3}, Thor: map[string]int{"K": 5}, Require: []string{"returned"},
				What: "one NextToken call on any window of <=K valid runes: no panic, progress, cursor in range"},
		},
	},
}
