package homescript

import (
	"fmt"

	"github.com/smarthome-go/homescript/v3/homescript/errors"
)

// Operator family: `fn main() { println(L op R); }` with the operator and the
// operand type chosen by selectors and the operand VALUES unconstrained solver
// variables (host-provided globals). mode (VerifParam "mode"):
//   1 = C01: VM result vs definitional reference (B.3)
//   2 = C02: neither back end may panic
//   4 = C04: VM vs tree interpreter

var verifInfixOps = []string{"+", "-", "*", "/", "%", "**", "<<", ">>", "|", "&", "^", "==", "!=", "<", ">", "<=", ">=", "&&", "||"}
var verifPrefixOps = []string{"-", "!", "?"}

type verifRef struct {
	text      string // expected println text (without newline)
	fatal     bool   // a fatal interrupt is expected
	anyResult bool   // the definition leaves the result open (only "no crash")
	skip      bool
}

func verifRefInt(op string, a, b int64) verifRef {
	switch op {
	case "+":
		return verifRef{text: fmt.Sprint(a + b)}
	case "-":
		return verifRef{text: fmt.Sprint(a - b)}
	case "*":
		return verifRef{text: fmt.Sprint(a * b)}
	case "/":
		if b == 0 {
			return verifRef{fatal: true}
		}
		return verifRef{text: fmt.Sprint(a / b)}
	case "%":
		if b == 0 {
			return verifRef{fatal: true}
		}
		return verifRef{text: fmt.Sprint(a % b)}
	case "**":
		return verifRef{anyResult: true}
	case "<<":
		if b < 0 || b > 63 {
			return verifRef{anyResult: true}
		}
		return verifRef{text: fmt.Sprint(a << uint64(b))}
	case ">>":
		if b < 0 || b > 63 {
			return verifRef{anyResult: true}
		}
		return verifRef{text: fmt.Sprint(a >> uint64(b))}
	case "|":
		return verifRef{text: fmt.Sprint(a | b)}
	case "&":
		return verifRef{text: fmt.Sprint(a & b)}
	case "^":
		return verifRef{text: fmt.Sprint(a ^ b)}
	case "==":
		return verifRef{text: fmt.Sprint(a == b)}
	case "!=":
		return verifRef{text: fmt.Sprint(a != b)}
	case "<":
		return verifRef{text: fmt.Sprint(a < b)}
	case ">":
		return verifRef{text: fmt.Sprint(a > b)}
	case "<=":
		return verifRef{text: fmt.Sprint(a <= b)}
	case ">=":
		return verifRef{text: fmt.Sprint(a >= b)}
	}
	return verifRef{skip: true}
}

func verifRefFloat(op string, a, b float64) verifRef {
	switch op {
	case "+":
		return verifRef{text: fmt.Sprint(a + b)}
	case "-":
		return verifRef{text: fmt.Sprint(a - b)}
	case "*":
		return verifRef{text: fmt.Sprint(a * b)}
	case "/":
		if b == 0 {
			return verifRef{anyResult: true} // fatal error or IEEE result: both accepted (B.3)
		}
		return verifRef{text: fmt.Sprint(a / b)}
	case "**", "%":
		return verifRef{anyResult: true}
	case "==":
		return verifRef{text: fmt.Sprint(a == b)}
	case "!=":
		return verifRef{text: fmt.Sprint(a != b)}
	case "<":
		return verifRef{text: fmt.Sprint(a < b)}
	case ">":
		return verifRef{text: fmt.Sprint(a > b)}
	case "<=":
		return verifRef{text: fmt.Sprint(a <= b)}
	case ">=":
		return verifRef{text: fmt.Sprint(a >= b)}
	}
	return verifRef{skip: true}
}

func verifRefBool(op string, a, b bool) verifRef {
	switch op {
	case "&&", "&":
		return verifRef{text: fmt.Sprint(errors.VerifAnd(a, b))}
	case "||", "|":
		return verifRef{text: fmt.Sprint(errors.VerifOr(a, b))}
	case "^", "!=":
		return verifRef{text: fmt.Sprint(a != b)}
	case "==":
		return verifRef{text: fmt.Sprint(a == b)}
	}
	return verifRef{skip: true}
}

func verifRefStr(op string, a, b string) verifRef {
	switch op {
	case "+":
		return verifRef{text: a + b}
	case "==":
		return verifRef{text: fmt.Sprint(a == b)}
	case "!=":
		return verifRef{text: fmt.Sprint(a != b)}
	}
	return verifRef{skip: true}
}

var verifStrs = []string{"", "a", "ab"}

var verifPowInts = [][2]int64{{2, 10}, {7, 0}, {0, 0}, {-3, 3}, {-3, 4}, {2, -1}, {10, -2}, {-1, -3}, {1, -5}, {0, 5}, {3, 39}, {2, 62}, {10, 15}, {-2, 31}}
var verifPowFloats = [][2]float64{{2, 10}, {2, 0.5}, {1.5, 2}, {2, -1}, {0, 0}, {-8, 3}, {10, -2}, {0.5, 3}}

// verifRefPowInt: `a ** b` for concrete operands is defined where the mathematical result is an
// exactly representable integer below 2^53 (non-negative exponent).
func verifRefPowInt(a, b int64) verifRef {
	if b < 0 || b > 64 {
		return verifRef{anyResult: true}
	}
	r := int64(1)
	for k := int64(0); k < b; k++ {
		r *= a
		if r > 1<<53 || r < -(1<<53) {
			return verifRef{anyResult: true}
		}
	}
	return verifRef{text: fmt.Sprint(r)}
}

// verifCheckRun applies the mode's oracle to one accepted program.
func verifCheckRun(mode int, an verifAnalysis, inputs []verifInput, ref verifRef, wantOut string) {
	var vm, tr verifOutcome
	if mode == 2 {
		p1, m1 := errors.VerifPanics(func() { vm = verifRunVM(an, nil, inputs, verifLimits, newVerifCtx()) })
		if p1 {
			errors.VerifTag("panic", errors.VerifNorm(m1))
		}
		errors.VerifAssert("vm-no-panic", !p1)
		errors.VerifUntag("panic")
		p2, m2 := errors.VerifPanics(func() { tr = verifRunTree(an, nil, inputs, 100, newVerifCtx()) })
		if p2 {
			errors.VerifTag("panic", errors.VerifNorm(m2))
		}
		errors.VerifAssert("tree-no-panic", !p2)
		errors.VerifReached("ran")
		return
	}
	errors.VerifTag("__ignore_panic", "C02") // crashes are C02's subject
	p1, _ := errors.VerifPanics(func() { vm = verifRunVM(an, nil, inputs, verifLimits, newVerifCtx()) })
	if p1 {
		errors.VerifReached("vm-panicked-skipped") // C02's subject
		return
	}
	if mode == 1 {
		errors.VerifReached("ran")
		if ref.anyResult {
			return
		}
		if ref.fatal {
			errors.VerifAssert("vm-fatal-expected", len(vm.class) > 6 && vm.class[:6] == "fatal:")
			return
		}
		errors.VerifAssert("vm-completes", vm.class == "ok")
		if vm.class == "ok" {
			errors.VerifAssert("vm-output", vm.out == wantOut)
		}
		return
	}
	// mode 4
	p2, _ := errors.VerifPanics(func() { tr = verifRunTree(an, nil, inputs, 100, newVerifCtx()) })
	if p2 {
		errors.VerifReached("tree-panicked-skipped")
		return
	}
	errors.VerifReached("ran")
	verifAgree(vm, tr)
}

// verifAgree: same output, same outcome class, same message for throws.
func verifAgree(vm, tr verifOutcome) {
	errors.VerifAssert("same-class", verifClassKey(vm.class) == verifClassKey(tr.class))
	errors.VerifAssert("same-output", vm.out == tr.out)
	if vm.class == "throw" && tr.class == "throw" {
		errors.VerifAssert("same-message", vm.msg == tr.msg)
	}
}

// verifClassKey maps both back ends' outcome classes to a common key.
func verifClassKey(c string) string {
	if len(c) > 6 && c[:6] == "fatal:" {
		k := c[6:]
		switch k {
		case "UncaughtThrow", "UncaughtThrowError", "Vm_UncaughtThrow":
			return "uncaught"
		}
		return "fatal"
	}
	return c
}

func VerifHarness_Ops() {
	mode := errors.VerifParam("mode", 1)
	ty := errors.VerifNdIntRange("type", 0, 3)
	op := verifInfixOps[errors.VerifNdIntRange("op", 0, len(verifInfixOps)-1)]
	errors.VerifTag("op", op)
	errors.VerifTag("type", []string{"int", "float", "bool", "str"}[ty])
	var inputs []verifInput
	var ref verifRef
	concretePow := false
	switch ty {
	case 0:
		a, b := errors.VerifNdInt64("A"), errors.VerifNdInt64("B")
		if op == "**" {
			// math.Pow has no SMT theory (it is an uninterpreted function in the encoding): besides the
			// symbolic case, `**` is case-split over boundary operand pairs that are evaluated concretely.
			if pc := errors.VerifNdIntRange("powcase", 0, len(verifPowInts)); pc > 0 {
				a, b = verifPowInts[pc-1][0], verifPowInts[pc-1][1]
				concretePow = true
				errors.VerifTag("pow", fmt.Sprint(a, "**", b))
			}
		}
		inputs = []verifInput{{name: "L", kind: 'i', i: a}, {name: "R", kind: 'i', i: b}}
		ref = verifRefInt(op, a, b)
		if concretePow {
			ref = verifRefPowInt(a, b)
		}
	case 1:
		a, b := errors.VerifNdFloat64("X"), errors.VerifNdFloat64("Y")
		if op == "**" {
			if pc := errors.VerifNdIntRange("powcase", 0, len(verifPowFloats)); pc > 0 {
				a, b = verifPowFloats[pc-1][0], verifPowFloats[pc-1][1]
				errors.VerifTag("pow", fmt.Sprint(a, "**", b))
			}
		}
		inputs = []verifInput{{name: "L", kind: 'f', f: a}, {name: "R", kind: 'f', f: b}}
		ref = verifRefFloat(op, a, b)
	case 2:
		a, b := errors.VerifNdBool("P"), errors.VerifNdBool("Q")
		inputs = []verifInput{{name: "L", kind: 'b', b: a}, {name: "R", kind: 'b', b: b}}
		ref = verifRefBool(op, a, b)
	case 3:
		a := verifStrs[errors.VerifNdIntRange("S", 0, len(verifStrs)-1)]
		b := verifStrs[errors.VerifNdIntRange("T", 0, len(verifStrs)-1)]
		inputs = []verifInput{{name: "L", kind: 's', s: a}, {name: "R", kind: 's', s: b}}
		ref = verifRefStr(op, a, b)
	}
	code := "fn main() {\n  println(L " + op + " R);\n}\n"
	an := verifAnalyze(code, nil, inputs, true)
	if an.hasError {
		errors.VerifReached("rejected")
		return
	}
	errors.VerifReached("accepted")
	if ref.skip {
		ref.anyResult = true
	}
	verifCheckRun(mode, an, inputs, ref, ref.text+"\n")
}

var verifAssignOps = []string{"+", "-", "*", "/", "%", "**", "<<", ">>", "|", "&", "^"}

// VerifHarness_AssignOps: `let x = L; x op= R; println(x);` — the compound assignment forms of every operator,
// same oracles as VerifHarness_Ops (the result of `x op= R` is that of `x op R`).
func VerifHarness_AssignOps() {
	mode := errors.VerifParam("mode", 1)
	ty := errors.VerifNdIntRange("type", 0, 3)
	op := verifAssignOps[errors.VerifNdIntRange("op", 0, len(verifAssignOps)-1)]
	errors.VerifTag("op", op+"=")
	errors.VerifTag("type", []string{"int", "float", "bool", "str"}[ty])
	var inputs []verifInput
	var ref verifRef
	switch ty {
	case 0:
		a, b := errors.VerifNdInt64("A"), errors.VerifNdInt64("B")
		inputs = []verifInput{{name: "L", kind: 'i', i: a}, {name: "R", kind: 'i', i: b}}
		ref = verifRefInt(op, a, b)
	case 1:
		a, b := errors.VerifNdFloat64("X"), errors.VerifNdFloat64("Y")
		inputs = []verifInput{{name: "L", kind: 'f', f: a}, {name: "R", kind: 'f', f: b}}
		ref = verifRefFloat(op, a, b)
	case 2:
		a, b := errors.VerifNdBool("P"), errors.VerifNdBool("Q")
		inputs = []verifInput{{name: "L", kind: 'b', b: a}, {name: "R", kind: 'b', b: b}}
		ref = verifRefBool(op, a, b)
	case 3:
		a := verifStrs[errors.VerifNdIntRange("S", 0, len(verifStrs)-1)]
		b := verifStrs[errors.VerifNdIntRange("T", 0, len(verifStrs)-1)]
		inputs = []verifInput{{name: "L", kind: 's', s: a}, {name: "R", kind: 's', s: b}}
		ref = verifRefStr(op, a, b)
	}
	code := "fn main() {\n  let x = L;\n  x " + op + "= R;\n  println(x);\n}\n"
	an := verifAnalyze(code, nil, inputs, true)
	if an.hasError {
		errors.VerifReached("rejected")
		return
	}
	errors.VerifReached("accepted")
	if ref.skip {
		ref.anyResult = true
	}
	verifCheckRun(mode, an, inputs, ref, ref.text+"\n")
}

// Float text: the solver has no theory of Go's float formatting (the text of a symbolic float is an opaque piece),
// so the agreement of the two back ends on float text is additionally checked on a boundary set of concrete
// values (exponent switch-over points of %v, integers beyond 2^53, negative zero, NaN, infinities). This part is
// enumeration, stated as such in the evidence.
var verifFloatCases = []float64{0, 1.5, -2.25, 99999.5, 100000, 999999.9, 1e6, 1e7, 123456789.125, 9007199254740993, 1e20, 1e21, 1e22,
	1e-3, 1e-4, 9.9e-5, 1e-5, 1e-7, 1.0 / 3.0, 5e-324, 1.7976931348623157e308}

func VerifHarness_FloatText() {
	ci := errors.VerifNdIntRange("case", 0, len(verifFloatCases)+3)
	var x float64
	switch {
	case ci < len(verifFloatCases):
		x = verifFloatCases[ci]
	case ci == len(verifFloatCases):
		x = verifNegZero()
	case ci == len(verifFloatCases)+1:
		x = verifNaN()
	case ci == len(verifFloatCases)+2:
		x = verifInf(1)
	default:
		x = verifInf(-1)
	}
	neg := errors.VerifNdBool("negate")
	if neg {
		x = -x
	}
	errors.VerifTag("x", fmt.Sprint(x))
	inputs := []verifInput{{name: "X", kind: 'f', f: x}}
	code := "fn main() {\n  println(X);\n  println(X.to_string());\n  println([X, X]);\n  println(new { v: X });\n  println(?X);\n  println(\"v=\" + X.to_string());\n  println(X as int);\n  println((X as int) as float);\n}\n"
	an := verifAnalyze(code, nil, inputs, true)
	if an.hasError {
		errors.VerifInconclusive("float text program rejected: " + an.describe())
	}
	errors.VerifTag("__ignore_panic", "C02")
	var vm, tr verifOutcome
	crashed, _ := errors.VerifPanics(func() {
		vm = verifRunVM(an, nil, inputs, verifLimits, newVerifCtx())
		tr = verifRunTree(an, nil, inputs, 100, newVerifCtx())
	})
	if crashed {
		return // C02's subject
	}
	errors.VerifReached("ran")
	verifAgree(vm, tr)
}

func verifNegZero() float64 { z := 0.0; return -z }
func verifNaN() float64     { z := 0.0; return z / z }
func verifInf(sign int) float64 {
	z := 0.0
	return float64(sign) / z
}
