package homescript

import (
	"fmt"

	"github.com/smarthome-go/homescript/v3/homescript/compiler"
	"github.com/smarthome-go/homescript/v3/homescript/errors"
	"github.com/smarthome-go/homescript/v3/homescript/runtime"
)

// C09: resource limits as solver variables. The code only compares against
// CallStackMaxSize / StackMaxSize / the interpreter's call limit, so the
// solver (not enumeration) finds the boundary values; MaxMemorySize sizes an
// allocation and is case-split.

const verifLimitsRecProgram = "fn rec(n: int) -> int {\n  let a = n;\n  if n <= 0 { return 0; }\n  return 1 + rec(n - 1);\n}\nfn main() {\n  println(rec(N));\n}\n"

func verifIsOverflow(class string) bool {
	return class == "fatal:StackOverFlow" || class == "fatal:OutOfMemoryError"
}

// verifRunVMGuarded runs the VM; a documented NewVM panic (init code interrupted) is an outcome, not a crash.
func verifRunVMGuarded(an verifAnalysis, inputs []verifInput, limits runtime.CoreLimits) (o verifOutcome, crashed bool, msg string) {
	p, m := errors.VerifPanics(func() { o = verifRunVM(an, nil, inputs, limits, newVerifCtx()) })
	if p && verifHasPrefix(m, "Fatal: VM encountered exception during initialization code") {
		return verifOutcome{class: "init-interrupt", msg: m}, false, ""
	}
	return o, p, m
}

// VerifHarness_CallDepthLimit: recursion depth N (symbolic) against a symbolic call-depth limit, VM and tree interpreter.
func VerifHarness_CallDepthLimit() {
	backend := errors.VerifNdIntRange("backend", 0, 1)
	errors.VerifTag("backend", []string{"vm", "tree"}[backend])
	nmax := errors.VerifParam("N", 6)
	n := errors.VerifNdInt64("N")
	errors.VerifAssume(n >= 0)
	errors.VerifAssume(n <= int64(nmax))
	lim := errors.VerifNdUint("limit")
	errors.VerifAssume(lim <= uint(errors.VerifParam("M", 16)))
	inputs := []verifInput{{name: "N", kind: 'i', i: n}}
	an := verifAnalyze(verifLimitsRecProgram, nil, inputs, true)
	if an.hasError {
		errors.VerifInconclusive("limit program rejected: " + an.describe())
	}
	want := fmt.Sprint(n) + "\n"
	run := func(l uint) (verifOutcome, bool, string) {
		if backend == 0 {
			limits := verifLimits
			limits.CallStackMaxSize = l
			return verifRunVMGuarded(an, inputs, limits)
		}
		var o verifOutcome
		p, m := errors.VerifPanics(func() { o = verifRunTree(an, nil, inputs, l, newVerifCtx()) })
		return o, p, m
	}
	o1, crashed, msg := run(lim)
	if crashed {
		errors.VerifTag("panic", errors.VerifNorm(msg))
	}
	errors.VerifAssert("limit-never-crashes-the-host", !crashed)
	if crashed {
		return
	}
	errors.VerifReached("ran")
	// the only legal outcomes: completion with the right output, or the stack-overflow interrupt
	okOutcome := o1.class == "ok"
	errors.VerifAssert("outcome-is-completion-or-overflow", okOutcome || verifIsOverflow(o1.class) || o1.class == "init-interrupt")
	if okOutcome {
		errors.VerifAssert("within-limit-output-unchanged", o1.out == want)
	}
	// enforcement: the deepest point has N+2 frames (main, rec x (N+1)); one scheduling quantum (50 instructions) of overshoot is allowed
	demand := uint(n) + 2
	if backend == 0 {
		if lim+50 < demand {
			errors.VerifAssert("exceeding-the-limit-is-stopped", !okOutcome)
		}
		if lim >= demand+1 { // +1: the VM's hidden init/entry bookkeeping
			errors.VerifAssert("within-the-limit-is-not-stopped", okOutcome)
		}
	} else {
		if lim+2 < demand {
			errors.VerifAssert("exceeding-the-limit-is-stopped", !okOutcome)
		}
		if lim >= demand+1 {
			errors.VerifAssert("within-the-limit-is-not-stopped", okOutcome)
		}
	}
	// monotonicity: a larger limit never stops a program that a smaller one let through
	o2, crashed2, _ := run(lim + 1)
	if !crashed2 && okOutcome {
		errors.VerifAssert("larger-limit-still-completes", o2.class == "ok" && o2.out == want)
	}
}

// VerifHarness_StackLimit: operand-stack limit symbolic, expression nesting width W selector.
func VerifHarness_StackLimit() {
	w := errors.VerifNdIntRange("W", 0, errors.VerifParam("W", 40))
	lim := errors.VerifNdUint("limit")
	errors.VerifAssume(lim <= uint(errors.VerifParam("M", 64)))
	errors.VerifTag("W", fmt.Sprint(w))
	expr := "A"
	for i := 0; i < w; i++ {
		expr = "1 + (" + expr + ")"
	}
	args := ""
	for i := 0; i <= w; i++ {
		if i > 0 {
			args += ", "
		}
		args += "A"
	}
	code := "fn main() {\n  let l = [" + args + "];\n  println(" + expr + ", l.len());\n}\n"
	a := errors.VerifNdInt64("A")
	inputs := []verifInput{{name: "A", kind: 'i', i: a}}
	an := verifAnalyze(code, nil, inputs, true)
	if an.hasError {
		errors.VerifInconclusive("stack program rejected: " + an.describe())
	}
	limits := verifLimits
	limits.StackMaxSize = lim
	o, crashed, msg := verifRunVMGuarded(an, inputs, limits)
	if crashed {
		errors.VerifTag("panic", errors.VerifNorm(msg))
	}
	errors.VerifAssert("limit-never-crashes-the-host", !crashed)
	if crashed {
		return
	}
	errors.VerifReached("ran")
	want := fmt.Sprint(a+int64(w)) + " " + fmt.Sprint(w+1) + "\n"
	errors.VerifAssert("outcome-is-completion-or-overflow", o.class == "ok" || verifIsOverflow(o.class) || o.class == "init-interrupt")
	if o.class == "ok" {
		errors.VerifAssert("within-limit-output-unchanged", o.out == want)
	}
	if lim >= uint(2*w+8) {
		errors.VerifAssert("within-the-limit-is-not-stopped", o.class == "ok")
	}
}

// VerifHarness_MemoryLimit: MaxMemorySize case-split; a loop calling a function with locals must
// behave the same for 1 and for 4 iterations (frames and memory are returned).
func VerifHarness_MemoryLimit() {
	sizes := []uint{0, 1, 2, 3, 4, 6, 8, 12, 16, 64}
	mem := sizes[errors.VerifNdIntRange("mem", 0, len(sizes)-1)]
	errors.VerifTag("mem", fmt.Sprint(mem))
	code := "fn work(n: int) -> int {\n  let a = n + 1;\n  let b = a * 2;\n  return b;\n}\nfn main() {\n  let s = 0;\n  for i in 0..K {\n    s += work(i);\n  }\n  println(s);\n}\n"
	limits := verifLimits
	limits.MaxMemorySize = mem
	var classes [2]string
	for idx, k := range []int64{1, 4} {
		inputs := []verifInput{{name: "K", kind: 'i', i: k}}
		an := verifAnalyze(code, nil, inputs, true)
		if an.hasError {
			errors.VerifInconclusive("memory program rejected: " + an.describe())
		}
		o, crashed, msg := verifRunVMGuarded(an, inputs, limits)
		if crashed {
			errors.VerifTag("panic", errors.VerifNorm(msg))
		}
		errors.VerifAssert("limit-never-crashes-the-host", !crashed)
		if crashed {
			return
		}
		errors.VerifAssert("outcome-is-completion-or-out-of-memory", o.class == "ok" || verifIsOverflow(o.class) || o.class == "init-interrupt")
		classes[idx] = o.class
		if o.class == "ok" {
			want := "2\n"
			if k == 4 {
				want = "20\n"
			}
			errors.VerifAssert("within-limit-output-unchanged", o.out == want)
		}
	}
	errors.VerifReached("ran")
	errors.VerifAssert("bounded-depth-loop-runs-indefinitely", (classes[0] == "ok") == (classes[1] == "ok"))
}

// verifFrameSize reads the frame size (number of variable slots) of the function whose mangled name ends in
// "_"+name from the compiler's output: the operand of its first AddMempointer instruction.
func verifFrameSize(an verifAnalysis, name string) (int64, bool) {
	comp := compiler.NewCompiler(an.modules, verifFile)
	compiled, err := comp.Compile()
	if err != nil {
		return 0, false
	}
	for mangled, insts := range compiled.Functions {
		if !verifHasSuffix(mangled, "_"+name) && !verifHasSuffix(mangled, "."+name) {
			continue
		}
		for _, in := range insts {
			if in.Opcode() == compiler.Opcode_AddMempointer {
				return in.(compiler.OneIntInstruction).Value, true
			}
		}
	}
	return 0, false
}

func verifHasSuffix(s, suf string) bool { return len(s) >= len(suf) && s[len(s)-len(suf):] == suf }

// VerifHarness_MemoryDemand: the memory demand of rec(N) is frame(main) + (N+1)*frame(rec) slots (frame sizes
// read from the compiler's output, N a solver variable); the memory limit is a selector. A demand below the limit
// must complete, a demand of one whole frame beyond it must be stopped with the out-of-memory interrupt.
func VerifHarness_MemoryDemand() {
	nmax := errors.VerifParam("N", 5)
	n := errors.VerifNdInt64("N")
	errors.VerifAssume(n >= 0)
	errors.VerifAssume(n <= int64(nmax))
	inputs := []verifInput{{name: "N", kind: 'i', i: n}}
	an := verifAnalyze(verifLimitsRecProgram, nil, inputs, true)
	if an.hasError {
		errors.VerifInconclusive("limit program rejected: " + an.describe())
	}
	kMain, ok1 := verifFrameSize(an, "main")
	kRec, ok2 := verifFrameSize(an, "rec")
	if !ok1 || !ok2 || kRec <= 0 {
		errors.VerifInconclusive("frame sizes not found in the compiler output")
	}
	mem := errors.VerifNdIntRange("mem", 0, int(kMain+(int64(nmax)+3)*kRec))
	errors.VerifTag("mem", fmt.Sprint(mem))
	limits := verifLimits
	limits.MaxMemorySize = uint(mem)
	o, crashed, msg := verifRunVMGuarded(an, inputs, limits)
	if crashed {
		errors.VerifTag("panic", errors.VerifNorm(msg))
	}
	errors.VerifAssert("limit-never-crashes-the-host", !crashed)
	if crashed {
		return
	}
	errors.VerifReached("ran")
	peak := kMain + (n+1)*kRec // highest memory pointer reached
	ok := o.class == "ok"
	errors.VerifAssert("outcome-is-completion-or-out-of-memory", ok || verifIsOverflow(o.class) || o.class == "init-interrupt")
	if ok {
		errors.VerifAssert("within-limit-output-unchanged", o.out == fmt.Sprint(n)+"\n")
	}
	if peak < int64(mem) {
		errors.VerifAssert("within-the-limit-is-not-stopped", ok)
	}
	if peak >= int64(mem)+kRec {
		errors.VerifAssert("exceeding-the-limit-is-stopped", !ok)
	}
}

// Loop bodies whose every iteration must give back its operands, frames and memory: exits taken while operands of
// an unfinished expression are pending, exceptions caught in the same frame and in a caller, early returns.
var verifLoopBodies = []struct{ name, decl, body string }{
	{"call-with-locals", "fn work(n: int) -> int {\n  let a = n + 1;\n  let b = a * 2;\n  return b;\n}\n", "    s += work(i) - work(i);\n"},
	{"catch-same-frame-pending-operands", "", "    s = s + (1 + (2 + try { if i >= 0 { throw(\"x\"); } 1 } catch e { 0 - 3 }));\n"},
	{"catch-in-caller", "fn boom(n: int) -> int {\n  let q = n * 2;\n  if n >= 0 { throw(\"x\"); }\n  return q;\n}\n", "    s = s + (1 + try { boom(i) } catch e { 0 - 1 });\n"},
	{"catch-in-caller-pending-in-callee", "fn boom(n: int) -> int {\n  return 1 + (2 + { if n >= 0 { throw(\"x\"); } 3 });\n}\n", "    s = s + try { boom(i) } catch e { 0 };\n"},
	{"continue-with-pending-operands", "", "    s = s + (1 + { if i >= 0 { continue; } 2 });\n"},
	{"break-inner-loop-with-pending-operands", "", "    loop {\n      s = s + (1 + { if i >= 0 { break; } 2 });\n    }\n"},
	{"return-with-pending-operands", "fn early(n: int) -> int {\n  return 1 + (2 + { if n >= 0 { return 0; } 3 });\n}\n", "    s += early(i);\n"},
	{"match-arm-exit", "", "    s = s + (1 + match i { 0 => { 0 - 1 }, _ => { if i > 0 { continue; } 5 } });\n"},
	{"for-over-list-break", "", "    for x in [1, 2, 3] {\n      if x == 2 { break; }\n      s += 0;\n    }\n"},
	{"nested-try-rethrow", "", "    s = s + try { 1 + try { if i >= 0 { throw(\"a\"); } 1 } catch e { throw(\"b\") } } catch f { 0 };\n"},
	{"caught-throw-in-call-argument", "fn id(n: int) -> int {\n  return n;\n}\nfn fail(n: int) -> int {\n  if n >= 0 { throw(\"x\"); }\n  return n;\n}\n", "    try { s += id(fail(i)); } catch e { s += 0; }\n"},
	{"caught-throw-in-closure-argument", "fn fail(n: int) -> int {\n  if n >= 0 { throw(\"x\"); }\n  return n;\n}\n", "    let f = fn(n: int) -> int { n };\n    try { s += f(fail(i)); } catch e { s += 0; }\n"},
	{"caught-throw-in-builtin-argument", "fn fail(n: int) -> int {\n  if n >= 0 { throw(\"x\"); }\n  return n;\n}\n", "    try { println(fail(i)); } catch e { s += 0; }\n"},
	{"break-in-call-argument", "fn id(n: int) -> int {\n  return n;\n}\n", "    loop {\n      s += id({ if i >= 0 { break; } 1 });\n    }\n"},
	{"continue-in-call-argument", "fn id(n: int) -> int {\n  return n;\n}\n", "    s += id({ if i >= 0 { continue; } 1 });\n"},
	{"null-returning-call-statement", "fn nul() -> null {\n  null\n}\n", "    nul();\n    s += 0;\n"},
	{"null-literal-statement", "", "    null;\n    s += 0;\n"},
	{"null-block-statement", "", "    { null };\n    if i >= 0 { null } else { null };\n    s += 0;\n"},
	{"match-statement-without-default-no-arm-taken", "", "    match i + 1000 { 5 => { s += 1; }, 6 | 7 => { s += 2; } }\n    s += 0;\n"},
	{"match-statement-diverging-arm-not-taken", "fn pick(n: int) -> int {\n  match n { 100000 => { return 1; }, }\n  return 0;\n}\n", "    s += pick(i);\n"},
	{"method-call-argument-throws", "fn fail(n: int) -> int {\n  if n >= 0 { throw(\"x\"); }\n  return n;\n}\n", "    let l = [0];\n    try { l.push(fail(i)); } catch e { s += l.len() - 1; }\n"},
}

// VerifHarness_LoopStability: a loop of bounded depth behaves the same for 1 and for 60 iterations under every
// (tight) operand-stack / memory / call-depth limit: nothing accumulates from one iteration to the next.
func VerifHarness_LoopStability() {
	bi := errors.VerifNdIntRange("body", 0, len(verifLoopBodies)-1)
	b := verifLoopBodies[bi]
	errors.VerifTag("body", b.name)
	backend := errors.VerifNdIntRange("backend", 0, 1)
	errors.VerifTag("backend", []string{"vm", "tree"}[backend])
	which := 2
	if backend == 0 {
		which = errors.VerifNdIntRange("limit", 0, 2) // 0 operand stack, 1 memory, 2 call depth (the tree interpreter has the call depth only)
	}
	sizes := []uint{4, 6, 8, 10, 12, 16, 20, 24, 32, 48}
	lim := sizes[errors.VerifNdIntRange("size", 0, len(sizes)-1)]
	errors.VerifTag("limit-kind", []string{"stack", "memory", "calls"}[which])
	errors.VerifTag("__limit", fmt.Sprint(lim))
	limits := verifLimits
	switch which {
	case 0:
		limits.StackMaxSize = lim
	case 1:
		limits.MaxMemorySize = lim
	default:
		limits.CallStackMaxSize = lim
	}
	code := b.decl + "fn main() {\n  let s = 0;\n  for i in 0..K {\n" + b.body + "  }\n  println(s);\n}\n"
	var classes [2]string
	var outs [2]string
	for idx, k := range []int64{1, 60} {
		inputs := []verifInput{{name: "K", kind: 'i', i: k}}
		an := verifAnalyze(code, nil, inputs, true)
		if an.hasError {
			errors.VerifInconclusive("loop program rejected: " + an.describe())
		}
		var o verifOutcome
		var crashed bool
		var msg string
		if backend == 0 {
			o, crashed, msg = verifRunVMGuarded(an, inputs, limits)
		} else {
			crashed, msg = errors.VerifPanics(func() { o = verifRunTree(an, nil, inputs, lim, newVerifCtx()) })
		}
		if crashed {
			errors.VerifTag("panic", errors.VerifNorm(msg))
		}
		errors.VerifAssert("limit-never-crashes-the-host", !crashed)
		if crashed {
			return
		}
		errors.VerifAssert("outcome-is-completion-or-overflow", o.class == "ok" || verifIsOverflow(o.class) || o.class == "init-interrupt")
		classes[idx], outs[idx] = o.class, o.out
	}
	errors.VerifReached("ran")
	if classes[0] == "ok" {
		errors.VerifReached("one-iteration-fits")
	}
	errors.VerifAssert("bounded-depth-loop-runs-indefinitely", (classes[0] == "ok") == (classes[1] == "ok"))
}

// VerifHarness_ArgumentDepth: evaluating the arguments of a call happens in the caller's frame, so `id(id(...id(i)))`
// (D calls nested in argument position) needs the same call depth as D calls in sequence: under every call-depth
// limit both programs have the same outcome, and the nested one completes whenever main + one frame fit.
func VerifHarness_ArgumentDepth() {
	backend := errors.VerifNdIntRange("backend", 0, 1)
	errors.VerifTag("backend", []string{"vm", "tree"}[backend])
	d := errors.VerifNdIntRange("D", 1, errors.VerifParam("D", 12))
	callee := errors.VerifNdIntRange("callee", 0, 2) // function, closure, function over a builtin method call
	errors.VerifTag("shape", fmt.Sprint("D=", d, " callee=", callee))
	sizes := []uint{3, 4, 6, 8, 12, 20}
	lim := sizes[errors.VerifNdIntRange("size", 0, len(sizes)-1)]
	errors.VerifTag("__limit", fmt.Sprint(lim))
	decl := "fn id(n: int) -> int {\n  return n + 1;\n}\n"
	pre := ""
	if callee == 1 {
		decl = ""
		pre = "  let id = fn(n: int) -> int { n + 1 };\n"
	}
	nested := "A"
	seq := "  let t = A;\n"
	for i := 0; i < d; i++ {
		if callee == 2 {
			nested = "id([" + nested + "].len())"
			seq += "  t = id([t].len());\n"
		} else {
			nested = "id(" + nested + ")"
			seq += "  t = id(t);\n"
		}
	}
	a := errors.VerifNdInt64("A")
	errors.VerifAssume(a >= 0 && a <= 9)
	inputs := []verifInput{{name: "A", kind: 'i', i: a}}
	progs := []string{
		decl + "fn main() {\n" + pre + "  println(" + nested + ");\n}\n",
		decl + "fn main() {\n" + pre + seq + "  println(t);\n}\n",
	}
	var classes, outs [2]string
	for idx, code := range progs {
		an := verifAnalyze(code, nil, inputs, true)
		if an.hasError {
			errors.VerifTag("diag", an.describe())
			errors.VerifAssert("accepted", false)
			return
		}
		var o verifOutcome
		var crashed bool
		var msg string
		if backend == 0 {
			limits := verifLimits
			limits.CallStackMaxSize = lim
			o, crashed, msg = verifRunVMGuarded(an, inputs, limits)
		} else {
			crashed, msg = errors.VerifPanics(func() { o = verifRunTree(an, nil, inputs, lim, newVerifCtx()) })
		}
		if crashed {
			errors.VerifTag("panic", errors.VerifNorm(msg))
		}
		errors.VerifAssert("limit-never-crashes-the-host", !crashed)
		if crashed {
			return
		}
		classes[idx], outs[idx] = o.class, o.out
	}
	errors.VerifReached("ran")
	errors.VerifAssert("calls-in-argument-position-need-no-more-depth-than-calls-in-sequence", classes[0] == classes[1])
	if classes[0] == "ok" && classes[1] == "ok" {
		errors.VerifAssert("same-result", outs[0] == outs[1])
	}
	if lim >= 4 {
		errors.VerifAssert("depth-two-program-fits", classes[0] == "ok")
	}
}
