package homescript

import (
	"fmt"

	"github.com/smarthome-go/homescript/v3/homescript/analyzer/ast"
	"github.com/smarthome-go/homescript/v3/homescript/diagnostic"
	"github.com/smarthome-go/homescript/v3/homescript/errors"
	"github.com/smarthome-go/homescript/v3/homescript/optimizer"
	pAst "github.com/smarthome-go/homescript/v3/homescript/parser/ast"
)

// C19: print -> re-lex -> re-parse round trips and optimiser differential.

var verifPrintExtra = []verifTemplate{
	{"else-if", "fn main() {\n  if A > 1 { println(1); } else if A > 0 { println(2); } else { println(3); }\n}\n"},
	{"match-default", "fn main() {\n  let v = match A { 1 => \"one\", 2 | 3 => \"few\", _ => \"many\", };\n  println(v);\n}\n"},
	{"escapes", "fn main() {\n  println(\"quote \\\" backslash \\\\ newline \\n tab \\t end\");\n  println('single');\n}\n"},
	{"object-keys", "fn main() {\n  let o = new { plain: 1, \"with space\": 2 };\n  println(o.plain);\n}\n"},
	{"nested-blocks", "fn main() {\n  let v = { let a = A; { let b = a + 1; b * 2 } };\n  println(v);\n}\n"},
	{"types", "type P = { x: int, y: ?float, l: [str] };\nfn main() {\n  let p: P = new { x: 1, y: ?2.5, l: [\"a\"] };\n  println(p.x, p.l[0]);\n}\n"},
	{"pub-event", "pub fn helper() -> int { return 1; }\nevent fn tick(n: int) { println(n); }\nfn main() {\n  println(helper());\n}\n"},
	{"floats", "fn main() {\n  println(1.5, 0.25, 100.0, 2.0 * X);\n}\n"},
	{"ranges-casts", "fn main() {\n  for i in 0..=2 { println(i as float); }\n  println((A as float) as int == A || true);\n}\n"},
	{"lambda-try", "fn main() {\n  let f = fn(a: int) -> int { a + 1 };\n  let r = try { f(A) } catch e { 0 };\n  println(r);\n}\n"},
	{"singleton", "$S = { n: int };\nfn show(s: $S, k: int) { println(s.n + k); }\nfn main() {\n  show(4);\n}\n"},
	{"float-magnitudes", "fn main() {\n  println(0.0000001 < 1.0, 123456789012345678901234.5 > 1.0, 1000000.0, 0.5, 0.000123);\n}\n"},
	{"object-keys-like-keywords", "fn main() {\n  let o = new { \"fn\": 1, \"let\": 2, plain: 3, \"a\\\"b\": 4 };\n  println(o.plain);\n}\n"},
	{"loop-break-before-nested-for", "fn main() {\n  let n = 0;\n  loop {\n    n += 1;\n    if n > 3 { break; }\n    for i in 0..2 { n += i; }\n  }\n  println(\"after\", n + A);\n  let m = 0;\n  loop {\n    m += 1;\n    if m < 3 { for x in [1, 2] { m += x; } } else { break; }\n    while m > 100 { m -= 1; }\n  }\n  println(\"done\", m);\n}\n"},
	{"negative-literals", "fn main() {\n  println(0 - 5, -A, !P, -(1 + 2));\n}\n"},
}

func verifPrintCorpus() []verifTemplate {
	c := append([]verifTemplate{}, verifTemplates...)
	c = append(c, verifPrintExtra...)
	for _, p := range verifCastProgs {
		c = append(c, verifTemplate{"cast-" + p.name, p.code})
	}
	for _, p := range verifDetermProgs {
		if p.modules == nil {
			c = append(c, verifTemplate{"determ-" + p.name, p.code})
		}
	}
	return c
}

func verifStdInputs() []verifInput {
	a, b, c := errors.VerifNdInt64("A"), errors.VerifNdInt64("B"), errors.VerifNdInt64("C")
	x, y := errors.VerifNdFloat64("X"), errors.VerifNdFloat64("Y")
	p, q := errors.VerifNdBool("P"), errors.VerifNdBool("Q")
	return []verifInput{{name: "A", kind: 'i', i: a}, {name: "B", kind: 'i', i: b}, {name: "C", kind: 'i', i: c},
		{name: "X", kind: 'f', f: x}, {name: "Y", kind: 'f', f: y}, {name: "P", kind: 'b', b: p}, {name: "Q", kind: 'b', b: q}}
}

// VerifHarness_PrintRoundTrip: printer = 0 parsed tree (pAst.Program.String), 1 analysed tree (ast.AnalyzedProgram.String).
func VerifHarness_PrintRoundTrip() {
	corpus := verifPrintCorpus()
	t := corpus[errors.VerifNdIntRange("template", 0, len(corpus)-1)]
	printer := errors.VerifNdIntRange("printer", 0, 1)
	errors.VerifTag("template", t.name)
	errors.VerifTag("printer", []string{"parsed", "analysed"}[printer])
	verifPrintCheck(t.code, verifStdInputs(), printer, verifHost{})
}

// verifPrintCheck: print -> re-parse -> re-analyse -> run, for one program and one printer.
func verifPrintCheck(code string, inputs []verifInput, printer int, host verifHost) {
	analyze := func(text string) verifAnalysis {
		mods, diags, syn := Analyze(InputProgram{ProgramText: text, Filename: verifFile}, verifAnalyzerScope(inputs), host, true)
		r := verifAnalysis{modules: mods, diags: diags, syntax: syn}
		r.hasError = len(syn) > 0
		for _, d := range diags {
			if d.Level == diagnostic.DiagnosticLevelError {
				r.hasError = true
			}
		}
		return r
	}
	an1 := analyze(code)
	printed := ""
	panicked, msg := errors.VerifPanics(func() {
		if printer == 0 {
			tree, _, perr := Parse(code, verifFile)
			if perr != nil {
				errors.VerifInconclusive("program does not parse")
			}
			printed = tree.String()
		} else {
			if an1.hasError {
				return
			}
			printed = an1.modules[verifFile].String()
		}
	})
	if panicked {
		errors.VerifTag("panic", errors.VerifNorm(msg))
	}
	errors.VerifAssert("printer-never-crashes", !panicked)
	if panicked || (printer == 1 && an1.hasError) {
		return
	}
	errors.VerifReached("printed")
	verifDebug("printed", printed)
	tree2, _, perr2 := Parse(printed, verifFile)
	errors.VerifAssert("printed-program-parses", perr2 == nil)
	if perr2 != nil {
		errors.VerifTag("err", perr2.Message)
		return
	}
	if printer == 0 {
		errors.VerifAssert("printing-is-a-fixed-point-after-one-round", tree2.String() == printed)
	}
	an2 := analyze(printed)
	errors.VerifAssert("acceptance-preserved", an1.hasError == an2.hasError)
	if an1.hasError || an2.hasError {
		if an2.hasError {
			errors.VerifTag("diag", an2.describe())
		}
		return
	}
	if printer == 1 {
		errors.VerifAssert("printing-is-a-fixed-point-after-one-round", an2.modules[verifFile].String() == printed)
	}
	errors.VerifTag("__ignore_panic", "C02")
	var o1, o2 verifOutcome
	p, _ := errors.VerifPanics(func() { o1 = verifRunVM(an1, nil, inputs, verifLimits, newVerifCtx()) })
	if p {
		errors.VerifReached("vm-panicked-skipped") // the original program crashes the VM: C02's subject
		return
	}
	errors.VerifUntag("__ignore_panic") // a crash of the printed program alone (in any goroutine) is the printer's doing
	p2, m2 := errors.VerifPanics(func() { o2 = verifRunVM(an2, nil, inputs, verifLimits, newVerifCtx()) })
	if p2 {
		errors.VerifTag("panic", errors.VerifNorm(m2))
		errors.VerifAssert("printed-program-behaves-identically", false)
		return
	}
	errors.VerifReached("ran")
	errors.VerifAssert("printed-program-behaves-identically", o1.class == o2.class && o1.out == o2.out)
	errors.VerifAssert("printed-program-registers-the-same-triggers", fmt.Sprint(o1.triggers) == fmt.Sprint(o2.triggers))
}

// VerifHarness_PrintFamilies: the generated program families through both printers: the statement x position
// product (with host triggers, a template and singletons in scope) and the nesting family of depth <= D.
func VerifHarness_PrintFamilies() {
	fam := errors.VerifNdIntRange("family", 0, 2)
	printer := errors.VerifNdIntRange("printer", 0, 1)
	errors.VerifTag("printer", []string{"parsed", "analysed"}[printer])
	if fam == 0 {
		si := errors.VerifNdIntRange("stmt", 0, len(vsStatements)-1)
		ci := errors.VerifNdIntRange("ctx", 0, len(vsContexts)-1)
		errors.VerifTag("stmt", vsStatements[si])
		errors.VerifTag("ctx", fmt.Sprint(ci))
		if vsStatements[si] == "continue;" && ci == 5 {
			return // never ends by its own semantics
		}
		if verifHasPrefix(vsStatements[si], "spawn ") {
			return // print order of a concurrently running function is not comparable between two runs
		}
		verifPrintCheck(vsPrelude+vsReplace(vsContexts[ci], vsStatements[si]), nil, printer, verifHost{})
		return
	}
	if fam == 2 {
		ei := errors.VerifNdIntRange("expr", 0, len(veExprs)-1)
		ci := errors.VerifNdIntRange("ctx", 0, len(veContexts)-1)
		errors.VerifTag("expr", veExprs[ei])
		errors.VerifTag("ctx", fmt.Sprint(ci))
		code := veProgram(ei, ci)
		a := errors.VerifNdInt64("A")
		verifPrintCheck(code, []verifInput{{name: "A", kind: 'i', i: a}, {name: "T", kind: 'b', b: true}}, printer, verifHost{})
		return
	}
	D := errors.VerifParam("D", 1)
	d := errors.VerifNdIntRange("depth", 1, D)
	g := &verifNestGen{exit: errors.VerifNdIntRange("exit", 0, len(verifExitKinds)-1)}
	tag := ""
	for i := 0; i < d; i++ {
		sl := errors.VerifNdIntRange(fmt.Sprintf("slot%d", i), 0, len(verifSlotKinds)-1)
		g.slots = append(g.slots, sl)
		tag += verifSlotKinds[sl] + ">"
	}
	errors.VerifTag("nest", tag+verifExitKinds[g.exit])
	code, ok := g.program()
	if !ok {
		return
	}
	p := errors.VerifNdBool("P")
	a := errors.VerifNdInt64("A")
	errors.VerifAssume(a >= -3)
	errors.VerifAssume(a <= 3)
	verifPrintCheck(code, []verifInput{{name: "P", kind: 'b', b: p}, {name: "A", kind: 'i', i: a}}, printer, verifHost{})
}

// VerifHarness_PrintStringLiteral: a string literal whose content is K unconstrained runes survives print + re-lex + re-parse.
func VerifHarness_PrintStringLiteral() {
	K := errors.VerifParam("K", 2)
	n := errors.VerifNdIntRange("len", 0, K)
	content := ""
	for i := 0; i < n; i++ {
		r := errors.VerifNdRune(fmt.Sprintf("r%d", i))
		errors.VerifAssume(r >= 0)
		errors.VerifAssume(r <= 0x10FFFF)
		errors.VerifAssume(errors.VerifOr(r < 0xD800, r > 0xDFFF))
		// the value library normalises string VALUES (NFC); literal text in a tree is what the lexer decoded. Keep ASCII here.
		errors.VerifAssume(r < 0x80)
		content += string(r)
	}
	which := errors.VerifNdIntRange("printer", 0, 1) // 0: parsed tree, 1: analysed tree
	errors.VerifTag("printer", []string{"parsed", "analysed"}[which])
	if which == 1 {
		verifPrintAnalysedLiteral(content)
		return
	}
	tree, _, perr := Parse("fn main() {\n  println(\"X\");\n}\n", verifFile)
	if perr != nil {
		errors.VerifInconclusive("template does not parse")
	}
	// replace the literal's value
	fn := tree.Functions[0]
	stmt := fn.Body.Statements[0].(pAst.ExpressionStatement)
	call := stmt.Expression.(pAst.CallExpression)
	lit := call.Arguments.List[0].(pAst.StringLiteralExpression)
	lit.Value = content
	call.Arguments.List[0] = lit
	stmt.Expression = call
	fn.Body.Statements[0] = stmt
	tree.Functions[0] = fn
	printed := tree.String()
	tree2, _, perr2 := Parse(printed, verifFile)
	errors.VerifReached("printed")
	if perr2 != nil {
		errors.VerifTag("__err", perr2.Message)
		errors.VerifTag("__printed", printed)
		verifDebug("parse error", perr2.Message, printed)
	}
	errors.VerifAssert("printed-string-literal-parses", perr2 == nil)
	if perr2 != nil {
		return
	}
	ok := false
	got := ""
	if len(tree2.Functions) == 1 && len(tree2.Functions[0].Body.Statements) == 1 {
		if st, isE := tree2.Functions[0].Body.Statements[0].(pAst.ExpressionStatement); isE {
			if c, isC := st.Expression.(pAst.CallExpression); isC && len(c.Arguments.List) == 1 {
				if l, isL := c.Arguments.List[0].(pAst.StringLiteralExpression); isL {
					ok = true
					got = l.Value
				}
			}
		}
	}
	errors.VerifAssert("printed-string-literal-keeps-its-place", ok)
	if ok {
		errors.VerifAssert("printed-string-literal-keeps-its-content", got == content)
	}
}

// verifPrintAnalysedLiteral: the same law for the analysed tree's printer.
func verifPrintAnalysedLiteral(content string) {
	an := verifAnalyze("fn main() {\n  println(\"X\");\n}\n", nil, nil, true)
	if an.hasError {
		errors.VerifInconclusive("template rejected")
	}
	mod := an.modules[verifFile]
	replaced := false
	for fi, f := range mod.Functions {
		if f.Ident.Ident() != "main" {
			continue
		}
		stmt, ok1 := f.Body.Statements[0].(ast.AnalyzedExpressionStatement)
		if !ok1 {
			break
		}
		call, ok2 := stmt.Expression.(ast.AnalyzedCallExpression)
		if !ok2 || len(call.Arguments.List) != 1 {
			break
		}
		lit, ok3 := call.Arguments.List[0].Expression.(ast.AnalyzedStringLiteralExpression)
		if !ok3 {
			break
		}
		lit.Value = content
		call.Arguments.List[0].Expression = lit
		stmt.Expression = call
		f.Body.Statements[0] = stmt
		mod.Functions[fi] = f
		replaced = true
	}
	if !replaced {
		errors.VerifInconclusive("string literal not found in the analysed template")
	}
	printed := mod.String()
	tree2, _, perr2 := Parse(printed, verifFile)
	errors.VerifReached("printed")
	if perr2 != nil {
		verifDebug("parse error", perr2.Message, printed)
	}
	errors.VerifAssert("printed-string-literal-parses", perr2 == nil)
	if perr2 != nil {
		return
	}
	ok := false
	got := ""
	for _, f := range tree2.Functions {
		if f.Ident.Ident() != "main" || len(f.Body.Statements) != 1 {
			continue
		}
		if st, isE := f.Body.Statements[0].(pAst.ExpressionStatement); isE {
			if c, isC := st.Expression.(pAst.CallExpression); isC && len(c.Arguments.List) == 1 {
				if l, isL := c.Arguments.List[0].(pAst.StringLiteralExpression); isL {
					ok = true
					got = l.Value
				}
			}
		}
	}
	errors.VerifAssert("printed-string-literal-keeps-its-place", ok)
	if ok {
		errors.VerifAssert("printed-string-literal-keeps-its-content", got == content)
	}
}

// VerifHarness_Optimizer: Optimize(p) behaves exactly like p (VM), on the template corpus and the nesting family.
func VerifHarness_Optimizer() {
	src := errors.VerifNdIntRange("source", 0, 3)
	code := ""
	var inputs []verifInput
	host := verifHost{}
	if src == 2 {
		ei := errors.VerifNdIntRange("expr", 0, len(veExprs)-1)
		ci := errors.VerifNdIntRange("ctx", 0, len(veContexts)-1)
		errors.VerifTag("program", fmt.Sprintf("expr %s @%d", veExprs[ei], ci))
		code = veProgram(ei, ci)
		inputs = []verifInput{{name: "A", kind: 'i', i: errors.VerifNdInt64("A")}, {name: "T", kind: 'b', b: true}}
	} else if src == 3 {
		si := errors.VerifNdIntRange("stmt", 0, len(vsStatements)-1)
		ci := errors.VerifNdIntRange("ctx", 0, len(vsContexts)-1)
		errors.VerifTag("program", fmt.Sprintf("stmt %s @%d", vsStatements[si], ci))
		if (vsStatements[si] == "continue;" && ci == 5) || verifHasPrefix(vsStatements[si], "spawn ") {
			return
		}
		code = vsPrelude + vsReplace(vsContexts[ci], vsStatements[si])
	} else if src == 0 {
		corpus := verifPrintCorpus()
		t := corpus[errors.VerifNdIntRange("template", 0, len(corpus)-1)]
		errors.VerifTag("program", t.name)
		code = t.code
		inputs = verifStdInputs()
	} else {
		D := errors.VerifParam("D", 1)
		d := errors.VerifNdIntRange("depth", 1, D)
		g := &verifNestGen{exit: errors.VerifNdIntRange("exit", 0, len(verifExitKinds)-1)}
		tag := ""
		for i := 0; i < d; i++ {
			s := errors.VerifNdIntRange(fmt.Sprintf("slot%d", i), 0, len(verifSlotKinds)-1)
			g.slots = append(g.slots, s)
			tag += verifSlotKinds[s] + ">"
		}
		errors.VerifTag("program", "nest:"+tag+verifExitKinds[g.exit])
		c, ok := g.program()
		if !ok {
			return
		}
		code = c
		p := errors.VerifNdBool("P")
		a := errors.VerifNdInt64("A")
		errors.VerifAssume(a >= -3)
		errors.VerifAssume(a <= 3)
		inputs = []verifInput{{name: "P", kind: 'b', b: p}, {name: "A", kind: 'i', i: a}}
	}
	_ = host
	an := verifAnalyze(code, nil, inputs, true)
	if an.hasError {
		return
	}
	opt := an
	panicked, msg := errors.VerifPanics(func() {
		o := optimizer.NewOptimizer()
		mods, _ := o.Optimize(an.modules)
		opt.modules = mods
	})
	if panicked {
		errors.VerifTag("panic", errors.VerifNorm(msg))
	}
	errors.VerifAssert("optimizer-never-crashes", !panicked)
	if panicked {
		return
	}
	errors.VerifTag("__ignore_panic", "C02")
	var o1, o2 verifOutcome
	p, _ := errors.VerifPanics(func() { o1 = verifRunVM(an, nil, inputs, verifLimits, newVerifCtx()) })
	if p {
		errors.VerifReached("vm-panicked-skipped") // the original program crashes the VM: C02's subject
		return
	}
	errors.VerifUntag("__ignore_panic") // a crash of the optimised program alone (in any goroutine) is the optimizer's doing
	p2, m2 := errors.VerifPanics(func() { o2 = verifRunVM(opt, nil, inputs, verifLimits, newVerifCtx()) })
	if p2 {
		// only the optimised program crashes: the optimizer changed the behaviour
		errors.VerifTag("panic", errors.VerifNorm(m2))
		errors.VerifAssert("optimised-program-behaves-identically", false)
		return
	}
	errors.VerifReached("ran")
	errors.VerifAssert("optimised-program-behaves-identically", o1.class == o2.class && o1.out == o2.out && (o1.class != "fatal:UncaughtThrow" || verifHasPrefix(o2.msg, "final") == verifHasPrefix(o1.msg, "final")))
}

// ---- statements that leave only sometimes ----

// voForms: expression statements (and lets) one part of which leaves the function / loop only on some executions:
// the code behind them is reachable. %C is a condition (host input P or its negation), %X the exit.
var voForms = []string{
	"%C && { %X };",
	"%C || { %X };",
	"if %C { %X }",
	"if %C { println(5); } else { %X }",
	"match %C { true => { %X }, _ => { println(6); } }",
	"let sc = %C && { %X };\n  println(sc);",
	"let w = 1 + { if %C { %X } 2 };\n  println(w);",
	"let l = [1, { if %C { %X } 2 }];\n  println(l.len());",
	"try { if %C { %X } println(7); } catch e { println(8); }",
	"{ %C && { %X }; }",
	"(%C || { %X }) && true;",
	"helper2(%C && { %X });",
	"while %C && { %X } { }",
}
var voExits = []string{"return 1;", "break;", "continue;", "throw(\"x\");"}

// VerifHarness_OptimizerDiverge: Optimize(p) behaves like p for every form x exit x position, the condition being an
// unconstrained host input (so the statement both leaves and falls through).
func VerifHarness_OptimizerDiverge() {
	form := errors.VerifNdIntRange("form", 0, len(voForms)-1)
	exit := errors.VerifNdIntRange("exit", 0, len(voExits)-1)
	neg := errors.VerifNdIntRange("negated", 0, 1)
	pos := errors.VerifNdIntRange("position", 0, 2) // 0 function body, 1 nested block, 2 lambda body
	cond := []string{"P", "!P"}[neg]
	stmt := ""
	for i := 0; i < len(voForms[form]); i++ {
		f := voForms[form]
		if f[i] == '%' && i+1 < len(f) {
			if f[i+1] == 'C' {
				stmt += cond
			} else {
				stmt += voExits[exit]
			}
			i++
			continue
		}
		stmt += string(f[i])
	}
	errors.VerifTag("program", fmt.Sprintf("%s exit=%s cond=%s position=%d", voForms[form], voExits[exit], cond, pos))
	inLoop := exit == 1 || exit == 2
	body := "  " + stmt + "\n  println(\"after\");\n"
	if inLoop {
		body = "  let n = 0;\n  while n < 2 {\n    n += 1;\n    " + stmt + "\n    println(\"after\", n);\n  }\n  println(\"out\");\n"
	}
	fn := ""
	switch pos {
	case 0:
		fn = "fn f() -> int {\n" + body + "  return 2;\n}\n"
	case 1:
		fn = "fn f() -> int {\n  {\n" + body + "  }\n  println(\"behind\");\n  return 2;\n}\n"
	default:
		fn = "fn f() -> int {\n  let g = fn() -> int {\n" + body + "  return 2;\n  };\n  return g() * 10;\n}\n"
	}
	code := "fn helper2(b: bool) { println(b); }\n" + fn + "fn main() {\n  try { println(f()); } catch e { println(\"thrown\"); }\n  println(\"end\");\n}\n"
	verifDebug("program", code)
	p := errors.VerifNdBool("P")
	inputs := []verifInput{{name: "P", kind: 'b', b: p}}
	an := verifAnalyze(code, nil, inputs, true)
	if an.hasError {
		errors.VerifReached("rejected")
		return
	}
	errors.VerifReached("accepted")
	opt := an
	panicked, msg := errors.VerifPanics(func() {
		o := optimizer.NewOptimizer()
		mods, _ := o.Optimize(an.modules)
		opt.modules = mods
	})
	if panicked {
		errors.VerifTag("panic", errors.VerifNorm(msg))
	}
	errors.VerifAssert("optimizer-never-crashes", !panicked)
	if panicked {
		return
	}
	errors.VerifTag("__ignore_panic", "C02")
	var o1, o2 verifOutcome
	pp, _ := errors.VerifPanics(func() { o1 = verifRunVM(an, nil, inputs, verifLimits, newVerifCtx()) })
	if pp {
		errors.VerifReached("vm-panicked-skipped") // the original program crashes the VM: C02's subject
		return
	}
	errors.VerifUntag("__ignore_panic") // a crash of the optimised program alone (in any goroutine) is the optimizer's doing
	p2, m2 := errors.VerifPanics(func() { o2 = verifRunVM(opt, nil, inputs, verifLimits, newVerifCtx()) })
	if p2 {
		// only the optimised program crashes: the optimizer changed the behaviour
		errors.VerifTag("panic", errors.VerifNorm(m2))
		errors.VerifAssert("optimised-program-behaves-identically", false)
		return
	}
	errors.VerifReached("ran")
	errors.VerifTag("got", errors.VerifNorm(o1.out)+" vs "+errors.VerifNorm(o2.out))
	errors.VerifAssert("optimised-program-behaves-identically", o1.class == o2.class && o1.out == o2.out)
}

// VerifHarness_PrintModule: a library module goes through a printer (0 parsed tree, 1 analysed tree); the entry
// module, unchanged, imports the library's public function, global and type from the printed text: the graph must
// stay accepted and print the same (a printer that drops `pub`, a type annotation or a field loses it here).
func VerifHarness_PrintModule() {
	printer := errors.VerifNdIntRange("printer", 0, 1)
	errors.VerifTag("printer", []string{"parsed", "analysed"}[printer])
	lib := "pub type Pair = { left: int, right: ?str };\npub let LIMIT = 9;\npub let NAMES: [str] = [\"a\", \"b\"];\nlet hidden = 1;\n" +
		"pub fn mk(n: int) -> Pair { return new { left: n + hidden, right: ?\"r\" }; }\nfn private_helper() -> int { return 2; }\npub fn twice(n: int) -> int { return n * private_helper(); }\nfn main() { }\n"
	main := "import { mk, twice, LIMIT, NAMES, type Pair } from lib;\nfn main() {\n  let p: Pair = mk(A);\n  println(p.left, p.right.unwrap(), twice(LIMIT), NAMES.len());\n}\n"
	inputs := []verifInput{{name: "A", kind: 'i', i: errors.VerifNdInt64("A")}}
	an1 := verifAnalyze(main, map[string]string{"lib": lib, "main": main}, inputs, true)
	if an1.hasError {
		errors.VerifTag("diag", an1.describe())
		errors.VerifAssert("accepted", false)
		return
	}
	printed := ""
	panicked, msg := errors.VerifPanics(func() {
		if printer == 0 {
			tree, _, perr := Parse(lib, "lib")
			if perr != nil {
				errors.VerifInconclusive("library does not parse")
			}
			printed = tree.String()
		} else {
			printed = an1.modules["lib"].String()
		}
	})
	if panicked {
		errors.VerifTag("panic", errors.VerifNorm(msg))
	}
	errors.VerifAssert("printer-never-crashes", !panicked)
	if panicked {
		return
	}
	errors.VerifReached("printed")
	verifDebug("printed", printed)
	modules2 := map[string]string{"lib": printed, "main": main}
	an2 := verifAnalyze(main, modules2, inputs, true)
	if an2.hasError {
		errors.VerifTag("diag", an2.describe())
	}
	errors.VerifAssert("printed-module-still-offers-its-public-items", !an2.hasError)
	if an2.hasError {
		return
	}
	errors.VerifTag("__ignore_panic", "C02")
	var o1, o2 verifOutcome
	p, _ := errors.VerifPanics(func() { o1 = verifRunVM(an1, map[string]string{"lib": lib, "main": main}, inputs, verifLimits, newVerifCtx()) })
	if p {
		errors.VerifReached("vm-panicked-skipped")
		return
	}
	errors.VerifUntag("__ignore_panic")
	p2, m2 := errors.VerifPanics(func() { o2 = verifRunVM(an2, modules2, inputs, verifLimits, newVerifCtx()) })
	if p2 {
		errors.VerifTag("panic", errors.VerifNorm(m2))
		errors.VerifAssert("printed-program-behaves-identically", false)
		return
	}
	errors.VerifReached("ran")
	errors.VerifAssert("printed-program-behaves-identically", o1.class == o2.class && o1.out == o2.out)
}
