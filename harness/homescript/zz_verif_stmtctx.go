package homescript

import (
	"fmt"

	"github.com/smarthome-go/homescript/v3/homescript/errors"
)

// Statement x context product: every statement form placed in every position that takes statements (function
// body, closure body, initializer block of a global, loop bodies, match arm, try/catch, blocks used as condition,
// call argument, list/object element, impl method, event function). mode 5 (C05): Analyze never panics and
// terminates. mode 2 (C02): an accepted combination runs on both back ends without a Go panic.

var vsStatements = []string{
	"let q = 1;",
	"q2 = 1;",
	"return;",
	"return 1;",
	"break;",
	"continue;",
	"trigger cb at minute(1);",
	"trigger cbm on message(\"t\", 1);",
	"trigger nothere at minute(1);",
	"trigger cb at nothere(1);",
	"spawn helper(1);",
	"throw(\"x\");",
	"loop { break; }",
	"while false { }",
	"for i in 0..1 { }",
	"if true { } else { }",
	"match 1 { 1 => {}, _ => {} }",
	"try { } catch e { }",
	"let f = fn() { return; };",
	"helper(1);",
	"1 + 1;",
	"type Z = int;",
	"let d: $Device = $Device;",
	"dim(1);",
	"let r = { return; };",
	"",
	"{}",
	"{};",
	"println($Device.b);",
	"$Device.b = 3;",
}

// %S is replaced by the statement
var vsContexts = []string{
	"fn main() { %S }",
	"fn main() { { %S } }",
	"let g = { %S 1 };\nfn main() { println(g); }",
	"let g = fn() { %S };\nfn main() { g(); }",
	"fn main() { let c = fn() { %S }; c(); }",
	"fn main() { loop { %S break; } }",
	"fn main() { let n = 0; while n < 1 { n += 1; %S } }",
	"fn main() { for k in 0..1 { %S } }",
	"fn main() { match 1 { 1 => { %S }, _ => { } } }",
	"fn main() { try { %S } catch e { } }",
	"fn main() { try { throw(\"t\"); } catch e { %S } }",
	"fn main() { if { %S true } { } }",
	"fn main() { println({ %S 1 }); }",
	"fn main() { let l = [{ %S 1 }]; println(l); }",
	"fn main() { let o = new { a: { %S 1 } }; println(o.a); }",
	"fn other() -> int { %S 1 }\nfn main() { println(other()); }",
	"event fn ev(elapsed: int) { %S }\nfn main() { }",
	"fn main() { }\nimpl FooFeature with { temperature } for $Other {\n  fn set_temp(self: $Other, celsius: float) { %S }\n}",
	"fn main() { let x = 1 + { %S 2 }; println(x); }",
	"fn main() { while { %S false } { } }",
	"fn main() { let v = if 2 < 1 { 1 } else { %S if 1 < 2 { 2 } else { 3 } }; println(v); }",
	"fn main() { if 2 < 1 { println(0); } else if 1 < 2 { %S } else { println(9); } }",
	"fn main() { if 2 < 1 { println(0); } else { %S if 1 < 2 { println(1); } } }",
	"fn main() { let v = match 1 { 1 => { %S 5 }, _ => 6 }; println(v); }",
	"fn main() { let v = try { %S 1 } catch e { 2 }; println(v); }",
	"let g = { %S };\nfn main() { }",
	"pub let g = [1, { %S }];\nfn main() { }",
	"let g = -{ %S };\nfn main() { }",
	"let g = new { k: { %S } };\nfn main() { }",
	"let g = 1 + { %S };\nfn main() { }",
	"let g = ({ %S }) as int;\nfn main() { }",
	"fn main() { let e = { %S }; }",
}

const vsPrelude = "import trigger minute from triggers;\nimport trigger message from triggers;\nimport templ FooFeature from templates;\n" +
	"$Device = { b: int };\n$Other = { c: float };\n" +
	"impl FooFeature with { light } for $Device {\n  fn dim(self: $Device, percent: int) -> bool { self.b = percent; true }\n}\n" +
	"event fn cb(elapsed: int) { println(elapsed); }\nevent fn cbm(topic: str, payload: str) { println(topic, payload); }\n" +
	"fn helper(a: int) { println(a); }\n"

func VerifHarness_StmtContexts() {
	mode := errors.VerifParam("mode", 5)
	si := errors.VerifNdIntRange("stmt", 0, len(vsStatements)-1)
	ci := errors.VerifNdIntRange("ctx", 0, len(vsContexts)-1)
	errors.VerifTag("stmt", vsStatements[si])
	errors.VerifTag("ctx", fmt.Sprint(ci))
	if vsContexts[ci] == "fn main() { let e = { %S }; }" {
		// class of the program: a let binds the value of a block that has no trailing expression (type null)
		errors.VerifUntag("stmt")
		errors.VerifUntag("ctx")
		errors.VerifTag("__stmt", vsStatements[si])
		errors.VerifTag("class", "let-binds-a-null-typed-block")
	}
	code := vsPrelude + vsReplace(vsContexts[ci], vsStatements[si])
	verifDebug("program", code)
	var an verifAnalysis
	panicked, msg := errors.VerifPanics(func() { an = verifAnalyzeWith(code, verifHost{}, true) })
	if panicked {
		errors.VerifTag("panic", errors.VerifNorm(msg))
		errors.VerifTag("site", errors.VerifPanicSite())
	}
	if mode == 5 {
		errors.VerifAssert("analysis-never-panics", !panicked)
		errors.VerifReached("analyzed")
		if !panicked && !an.hasError {
			errors.VerifReached("accepted")
		}
		return
	}
	if panicked {
		errors.VerifReached("analyzer-panicked") // C05's subject
		return
	}
	errors.VerifReached("analyzed")
	if an.hasError {
		return
	}
	errors.VerifReached("accepted")
	if vsStatements[si] == "continue;" && ci == 5 {
		return // `loop { continue; break; }` never ends by its own semantics: not a subject of this check
	}
	if mode == 4 {
		if verifHasPrefix(vsStatements[si], "spawn ") {
			return // the VM runs a spawned function concurrently, the interpreter inline: the order of their prints is not comparable
		}
		errors.VerifTag("__ignore_panic", "C02")
		var vm, tr verifOutcome
		p, _ := errors.VerifPanics(func() {
			vm = verifRunVM(an, nil, nil, verifLimits, newVerifCtx())
			tr = verifRunTree(an, nil, nil, 100, newVerifCtx())
		})
		if p {
			return // crashes are C02's subject
		}
		if tr.class == "fatal:HostError" && verifHasPrefix(tr.msg, "Trigger statements are not supported") {
			errors.VerifReached("outside-the-interpreters-language")
			return
		}
		errors.VerifReached("ran")
		verifAgree(vm, tr)
		return
	}
	p1, m1 := errors.VerifPanics(func() { verifRunVM(an, nil, nil, verifLimits, newVerifCtx()) })
	if p1 {
		errors.VerifTag("panic", errors.VerifNorm(m1))
	}
	errors.VerifAssert("vm-no-panic", !p1)
	errors.VerifUntag("panic")
	p2, m2 := errors.VerifPanics(func() { verifRunTree(an, nil, nil, 100, newVerifCtx()) })
	if p2 {
		errors.VerifTag("panic", errors.VerifNorm(m2))
	}
	errors.VerifAssert("tree-no-panic", !p2)
	errors.VerifReached("ran")
}

func vsReplace(ctx, stmt string) string {
	out := ""
	for i := 0; i < len(ctx); i++ {
		if ctx[i] == '%' && i+1 < len(ctx) && ctx[i+1] == 'S' {
			out += stmt
			i++
			continue
		}
		out += string(ctx[i])
	}
	return out
}
