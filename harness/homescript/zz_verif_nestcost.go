package homescript

import (
	"fmt"
	"strings"

	"github.com/smarthome-go/homescript/v3/homescript/errors"
)

// C05 (termination): analysing a construct nested D deep must cost about D times one level. Each family nests one
// construct kind D times; the whole Parse+Analyze run has to finish inside the harness's step budget, which a cost
// that doubles per level exceeds for D = 40 (the step bound is reported as a violation and confirmed natively by a
// wall-clock timeout).
var verifNestKinds = []struct {
	name       string
	open, shut string // repeated D times around the core
	core       string
	stmt       bool // the nest is a statement (otherwise an expression bound by let)
}{
	{"match-default-arm", "match x { _ => ", " }", "x", false},
	{"match-literal-arm", "match x { 1 => ", ", _ => 0 }", "x", false},
	{"if-then", "if x > 0 { ", " } else { 0 }", "x", false},
	{"if-else", "if x < 0 { 0 } else { ", " }", "x", false},
	{"else-if-chain", "if x < 0 { 0 } else ", "", "if x < 1 { 1 } else { 2 }", false},
	{"block", "{ ", " }", "x", false},
	{"lambda", "fn() -> int { ", " }()", "x", false},
	{"try", "try { ", " } catch e { 0 }", "x", false},
	{"catch", "try { throw(\"t\"); 0 } catch e { ", " }", "x", false},
	{"call-argument", "id(", ")", "x", false},
	{"list-literal", "[", "]", "x", false},
	{"object-literal", "new { k: ", " }", "x", false},
	{"parentheses", "(", ")", "x", false},
	{"prefix-minus", "-", "", "x", false},
	{"prefix-not", "!", "", "(x > 0)", false},
	{"option", "?", "", "x", false},
	{"infix-left", "", " + x", "x", false},
	{"infix-right", "x + (", ")", "x", false},
	{"and-chain", "", " && x > 0", "x > 0", false},
	{"cast-chain", "", " as int", "x", false},
	{"index-chain", "[", "][0]", "x", false},
	{"loop", "loop { ", " break; }", "println(x);", true},
	{"while", "while x > 0 { ", " break; }", "println(x);", true},
	{"for", "for i in 0..1 { ", " }", "println(x);", true},
	{"if-statement", "if x > 0 { ", " }", "println(x);", true},
	{"match-statement", "match x { _ => { ", " } }", "println(x);", true},
}

func VerifHarness_NestingCost() {
	D := errors.VerifParam("D", 40)
	k := verifNestKinds[errors.VerifNdIntRange("kind", 0, len(verifNestKinds)-1)]
	errors.VerifTag("kind", k.name)
	errors.VerifTag("depth", fmt.Sprint(D))
	nest := strings.Repeat(k.open, D) + k.core + strings.Repeat(k.shut, D)
	code := "fn id(n: int) -> int { n }\nfn main() {\n  let x = 1;\n  let y = 0;\n"
	if k.stmt {
		code += "  " + nest + "\n"
	} else {
		code += "  let v = " + nest + ";\n  println(v);\n"
	}
	code += "  println(y);\n}\n"
	var an verifAnalysis
	panicked, msg := errors.VerifPanics(func() { an = verifAnalyze(code, nil, nil, true) })
	if panicked {
		errors.VerifTag("panic", errors.VerifNorm(msg))
		errors.VerifTag("site", errors.VerifPanicSite())
	}
	errors.VerifAssert("analysis-never-panics", !panicked)
	if panicked {
		return
	}
	errors.VerifReached("analyzed")
	if an.hasError {
		errors.VerifTag("diag", an.describe())
	}
	errors.VerifAssert("deeply-nested-program-accepted", !an.hasError)
}
