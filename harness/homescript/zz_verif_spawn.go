package homescript

import (
	"fmt"
	"sync"

	"github.com/smarthome-go/homescript/v3/homescript/errors"
	vvalue "github.com/smarthome-go/homescript/v3/homescript/runtime/value"
)

// C17: spawned cores. Scheduling decisions at blocking/sync operations are
// fork variables (bounded number of deviations); a lockset monitor watches
// every Go map shared between goroutines.

// verifSyncExec is a well-behaved host: its output buffer is protected by a mutex.
type verifSyncExec struct {
	verifVmExec
	mu *sync.Mutex
}

func (e verifSyncExec) WriteStringTo(input string) error {
	e.mu.Lock()
	*e.out += input
	e.mu.Unlock()
	return nil
}

var _ vvalue.Executor = verifSyncExec{}

const verifSpawnProgram = "let g = 0;\n" +
	"fn w(a: int, b: int) {\n  println(a - b);\n  g += 1;\n}\n" +
	"fn main() {\n  spawn w(A, B);\n  if N > 1 { spawn w(C, D); }\n  println(\"main\", g >= 0);\n}\n"

func VerifHarness_Spawn() {
	n := errors.VerifNdIntRange("N", 1, 2)
	a, b := errors.VerifNdInt64("A"), errors.VerifNdInt64("B")
	c, d := errors.VerifNdInt64("C"), errors.VerifNdInt64("D")
	inputs := []verifInput{{name: "A", kind: 'i', i: a}, {name: "B", kind: 'i', i: b}, {name: "C", kind: 'i', i: c}, {name: "D", kind: 'i', i: d}, {name: "N", kind: 'i', i: int64(n)}}
	an := verifAnalyze(verifSpawnProgram, nil, inputs, true)
	if an.hasError {
		errors.VerifInconclusive("spawn program rejected: " + an.describe())
	}
	base := errors.VerifLiveGoroutines()
	var o verifOutcome
	panicked, msg := errors.VerifPanics(func() { o = verifRunVM(an, nil, inputs, verifLimits, newVerifCtx()) })
	if panicked {
		errors.VerifTag("panic", errors.VerifNorm(msg))
	}
	errors.VerifAssert("spawn-never-crashes-the-host", !panicked)
	if panicked {
		return
	}
	errors.VerifReached("returned")
	errors.VerifAssert("run-completes", o.class == "ok")
	l1 := fmt.Sprint(a-b) + "\n"
	l2 := fmt.Sprint(c-d) + "\n"
	lm := "main true\n"
	ok := false
	if n == 1 {
		ok = errors.VerifOr(o.out == l1+lm, o.out == lm+l1)
	} else {
		ok = errors.VerifOr(errors.VerifOr(errors.VerifOr(o.out == l1+l2+lm, o.out == l1+lm+l2), errors.VerifOr(o.out == l2+l1+lm, o.out == l2+lm+l1)),
			errors.VerifOr(o.out == lm+l1+l2, o.out == lm+l2+l1))
	}
	errors.VerifAssert("every-print-appears-exactly-once-and-whole-with-the-spawn-arguments", ok)
	errors.VerifAssert("wait-returned-after-all-cores-finished", errors.VerifLiveGoroutines() <= base)
}
