package homescript

import (
	"os"
	"fmt"
	"sync"

	"github.com/smarthome-go/homescript/v3/homescript/errors"
	vvalue "github.com/smarthome-go/homescript/v3/homescript/runtime/value"
)

// C17: spawned cores. Scheduling decisions at blocking/sync operations are
// fork variables (bounded number of deviations); a lockset monitor watches
// every Go map shared between goroutines.

// verifSyncExec is a well-behaved host: its output buffer is protected by a mutex.
type verifSyncExec struct {
	verifVmExec
	mu *sync.Mutex
}

func (e verifSyncExec) WriteStringTo(input string) error {
	e.mu.Lock()
	*e.out += input
	e.mu.Unlock()
	return nil
}

var _ vvalue.Executor = verifSyncExec{}

const verifSpawnProgram = "let g = 0;\n" +
	"fn w(a: int, b: int) {\n  println(a - b);\n  g += 1;\n}\n" +
	"fn main() {\n  spawn w(A, B);\n  if N > 1 { spawn w(C, D); }\n  println(\"main\", g >= 0);\n  if N > 2 { spawn w(1000, 1); }\n}\n"

func VerifHarness_Spawn() {
	n := errors.VerifNdIntRange("N", 1, errors.VerifParam("cores", 2))
	a, b := errors.VerifNdInt64("A"), errors.VerifNdInt64("B")
	c, d := errors.VerifNdInt64("C"), errors.VerifNdInt64("D")
	inputs := []verifInput{{name: "A", kind: 'i', i: a}, {name: "B", kind: 'i', i: b}, {name: "C", kind: 'i', i: c}, {name: "D", kind: 'i', i: d}, {name: "N", kind: 'i', i: int64(n)}}
	an := verifAnalyze(verifSpawnProgram, nil, inputs, true)
	if an.hasError {
		errors.VerifInconclusive("spawn program rejected: " + an.describe())
	}
	base := errors.VerifLiveGoroutines()
	var o verifOutcome
	panicked, msg := errors.VerifPanics(func() { o = verifRunVM(an, nil, inputs, verifLimits, newVerifCtx()) })
	if panicked {
		errors.VerifTag("panic", errors.VerifNorm(msg))
	}
	errors.VerifAssert("spawn-never-crashes-the-host", !panicked)
	if panicked {
		return
	}
	errors.VerifReached("returned")
	errors.VerifAssert("run-completes", o.class == "ok")
	lines := []string{"main true\n", fmt.Sprint(a-b) + "\n"}
	if n > 1 {
		lines = append(lines, fmt.Sprint(c-d)+"\n")
	}
	if n > 2 {
		lines = append(lines, "999\n")
	}
	ok := verifIsPermutationOf(o.out, "", lines, make([]bool, len(lines)))
	errors.VerifAssert("every-print-appears-exactly-once-and-whole-with-the-spawn-arguments", ok)
	errors.VerifAssert("wait-returned-after-all-cores-finished", errors.VerifLiveGoroutines() <= base)
}

// verifIsPermutationOf: out equals the concatenation of the lines in some order (each exactly once).
func verifIsPermutationOf(out, prefix string, lines []string, used []bool) bool {
	all := true
	for _, u := range used {
		all = all && u
	}
	if all {
		return out == prefix
	}
	res := false
	for i := range lines {
		if used[i] {
			continue
		}
		used[i] = true
		res = errors.VerifOr(res, verifIsPermutationOf(out, prefix+lines[i], lines, used))
		used[i] = false
	}
	return res
}

// Staggered spawns: a core that finishes at once, a core that outlives it, and a third spawn issued by main after a
// delay (so the wait loop can collect the first core in between). The delays read/write a global, which makes every
// iteration a scheduling point of the engine.
const verifStaggeredProgram = "let g = 0;\nlet t = 0;\n" +
	"fn quick() {\n  g += 1;\n}\n" +
	"fn slow(k: int) {\n  let i = 0;\n  while i < S {\n    i += 1;\n    t += 1;\n  }\n  println(\"slow\", k);\n}\n" +
	"fn main() {\n  spawn quick();\n  spawn slow(1);\n  let j = 0;\n  while j < M {\n    j += 1;\n    t += 1;\n  }\n  spawn slow(2);\n  println(\"main\");\n}\n"

func VerifHarness_SpawnStaggered() {
	s := errors.VerifNdIntRange("S", 1, errors.VerifParam("S", 6))
	m := errors.VerifNdIntRange("M", 0, errors.VerifParam("M", 6))
	errors.VerifTag("delays", fmt.Sprint("S=", s, " M=", m))
	inputs := []verifInput{{name: "S", kind: 'i', i: int64(s)}, {name: "M", kind: 'i', i: int64(m)}}
	an := verifAnalyze(verifStaggeredProgram, nil, inputs, true)
	if an.hasError {
		errors.VerifInconclusive("spawn program rejected: " + an.describe())
	}
	base := errors.VerifLiveGoroutines()
	var o verifOutcome
	panicked, msg := errors.VerifPanics(func() { o = verifRunVM(an, nil, inputs, verifLimits, newVerifCtx()) })
	if panicked {
		errors.VerifTag("panic", errors.VerifNorm(msg))
	}
	errors.VerifAssert("spawn-never-crashes-the-host", !panicked)
	if panicked {
		return
	}
	errors.VerifReached("returned")
	errors.VerifAssert("run-completes", o.class == "ok")
	lines := []string{"main\n", "slow 1\n", "slow 2\n"}
	errors.VerifTag("got", errors.VerifNorm(o.out))
	errors.VerifAssert("every-print-appears-exactly-once-and-whole-with-the-spawn-arguments", verifIsPermutationOf(o.out, "", lines, make([]bool, len(lines))))
	errors.VerifUntag("got")
	errors.VerifAssert("wait-returned-after-all-cores-finished", errors.VerifLiveGoroutines() <= base)
}

// Spawn arguments: one spawned function, arguments of different types and of equal types, unconstrained values.
// main does nothing else, so the output is fully prescribed (Wait returns after the spawned core finished).
var verifSpawnArgProgs = []struct {
	name, code string
	want       func(a, b, c int64, p bool) string
}{
	{"mixed-types", "fn worker(name: str, count: int, flag: bool, tail: str) {\n  println(name + \"!\", count + 1, !flag, tail + \"?\");\n}\nfn main() {\n  spawn worker(\"abc\", A, P, \"z\");\n}\n",
		func(a, b, c int64, p bool) string { return "abc! " + fmt.Sprint(a+1) + " " + fmt.Sprint(!p) + " z?\n" }},
	{"equal-types", "fn w(a: int, b: int, c: int) {\n  println(a - b, c);\n}\nfn main() {\n  spawn w(A, B, C);\n}\n",
		func(a, b, c int64, p bool) string { return fmt.Sprint(a-b) + " " + fmt.Sprint(c) + "\n" }},
	{"compound-values", "fn w(l: [int], o: { k: int }, n: int) {\n  println(l.len() + n, l[0], o.k);\n}\nfn main() {\n  spawn w([A, B], new { k: C }, 1);\n}\n",
		func(a, b, c int64, p bool) string { return "3 " + fmt.Sprint(a) + " " + fmt.Sprint(c) + "\n" }},
	{"one-argument", "fn w(a: int) {\n  println(a * 2);\n}\nfn main() {\n  spawn w(A);\n}\n",
		func(a, b, c int64, p bool) string { return fmt.Sprint(a*2) + "\n" }},
}

func VerifHarness_SpawnArgs() {
	mode := errors.VerifParam("mode", 1)
	t := verifSpawnArgProgs[errors.VerifNdIntRange("template", 0, len(verifSpawnArgProgs)-1)]
	errors.VerifTag("template", t.name)
	a, b, c := errors.VerifNdInt64("A"), errors.VerifNdInt64("B"), errors.VerifNdInt64("C")
	p := errors.VerifNdBool("P")
	inputs := []verifInput{{name: "A", kind: 'i', i: a}, {name: "B", kind: 'i', i: b}, {name: "C", kind: 'i', i: c}, {name: "P", kind: 'b', b: p}}
	an := verifAnalyze(t.code, nil, inputs, true)
	if an.hasError {
		errors.VerifTag("diag", an.describe())
		errors.VerifAssert("accepted", false)
		return
	}
	errors.VerifReached("accepted")
	var o verifOutcome
	backend := 0
	if mode != 1 {
		backend = errors.VerifNdIntRange("backend", 0, 1)
	}
	errors.VerifTag("backend", []string{"vm", "tree"}[backend])
	if mode != 2 {
		errors.VerifTag("__ignore_panic", "C02")
	}
	panicked, msg := errors.VerifPanics(func() {
		if backend == 0 {
			o = verifRunVM(an, nil, inputs, verifLimits, newVerifCtx())
		} else {
			o = verifRunTree(an, nil, inputs, 100, newVerifCtx())
		}
	})
	if mode == 2 {
		if panicked {
			errors.VerifTag("panic", errors.VerifNorm(msg))
		}
		errors.VerifAssert("spawn-never-crashes-the-host", !panicked)
		errors.VerifReached("ran")
		return
	}
	if panicked {
		errors.VerifReached("panicked-skipped")
		return
	}
	errors.VerifReached("ran")
	errors.VerifAssert("run-completes", o.class == "ok")
	errors.VerifAssert("spawned-function-sees-its-arguments-in-order", o.out == t.want(a, b, c, p))
}

// Values handed to several cores: the same range / list value is given to two spawned functions (as argument and
// through a global); each core must see the whole value, whatever the interleaving.
var verifSpawnSharedProgs = []struct {
	name, code string
	lines      []string
}{
	{"range-argument", "fn w(r: range, tag: int) {\n  let s = 0;\n  for i in r {\n    println(tag * 100 + i);\n    s += i;\n  }\n  println(tag * 1000 + s);\n}\nfn main() {\n  let r = 0..3;\n  spawn w(r, 1);\n  spawn w(r, 2);\n}\n",
		[]string{"100\n", "101\n", "102\n", "1003\n", "200\n", "201\n", "202\n", "2003\n"}},
	{"range-global", "let R = 0..=2;\nfn w(tag: int) {\n  let s = 0;\n  for i in R {\n    println(tag * 100 + i);\n    s += i;\n  }\n  println(tag * 1000 + s);\n}\nfn main() {\n  spawn w(1);\n  spawn w(2);\n}\n",
		[]string{"100\n", "101\n", "102\n", "1003\n", "200\n", "201\n", "202\n", "2003\n"}},
	{"nested-spawns", "let t = 0;\nlet go = false;\nfn child(k: int) {\n  let i = 0;\n  while i < k * 4 {\n    i += 1;\n    t += 1;\n  }\n  println(k);\n}\nfn parent(k: int) {\n  while !go { }\n  spawn child(k);\n}\nfn main() {\n  spawn parent(1);\n  spawn parent(2);\n  spawn parent(3);\n  spawn parent(5);\n  t += 1;\n  go = true;\n}\n",
		[]string{"1\n", "2\n", "3\n", "5\n"}},
	{"list-argument-read-only", "fn w(l: [int], tag: int) {\n  let s = 0;\n  for x in l {\n    s += x;\n  }\n  println(tag * 1000 + s + l.len());\n}\nfn main() {\n  let l = [1, 2, 3];\n  spawn w(l, 1);\n  spawn w(l, 2);\n}\n",
		[]string{"1009\n", "2009\n"}},
}

func VerifHarness_SpawnShared() {
	t := verifSpawnSharedProgs[errors.VerifNdIntRange("template", 0, len(verifSpawnSharedProgs)-1)]
	errors.VerifTag("template", t.name)
	an := verifAnalyze(t.code, nil, nil, true)
	if an.hasError {
		errors.VerifTag("diag", an.describe())
		errors.VerifAssert("accepted", false)
		return
	}
	// natively, when a counterexample that needs an interleaving is replayed (VERIF_CHAOS_SEED), the program is run
	// many times in the one process: windows of a few instructions are hit by repetition, not by one lucky run
	reps := 1
	if os.Getenv("VERIF_CHAOS_SEED") != "" {
		reps = 20
	}
	for r := 0; r < reps; r++ {
		base := errors.VerifLiveGoroutines()
		var o verifOutcome
		panicked, msg := errors.VerifPanics(func() { o = verifRunVM(an, nil, nil, verifLimits, newVerifCtx()) })
		if panicked {
			errors.VerifTag("panic", errors.VerifNorm(msg))
		}
		errors.VerifAssert("spawn-never-crashes-the-host", !panicked)
		if panicked {
			return
		}
		errors.VerifReached("returned")
		errors.VerifAssert("run-completes", o.class == "ok")
		errors.VerifTag("got", errors.VerifNorm(o.out))
		errors.VerifAssert("every-core-sees-the-whole-value-it-was-given", verifIsInterleavingOf(o.out, t.lines))
		errors.VerifUntag("got")
		errors.VerifAssert("wait-returned-after-all-cores-finished", errors.VerifLiveGoroutines() <= base)
	}
}

// verifIsInterleavingOf: out consists of exactly the given lines, each once, in any order (the output is concrete here).
func verifIsInterleavingOf(out string, lines []string) bool {
	used := make([]bool, len(lines))
	rest := out
	for len(rest) > 0 {
		found := false
		for i, l := range lines {
			if !used[i] && verifHasPrefix(rest, l) {
				used[i] = true
				rest = rest[len(l):]
				found = true
				break
			}
		}
		if !found {
			return false
		}
	}
	for _, u := range used {
		if !u {
			return false
		}
	}
	return true
}
