package homescript

import (
	"fmt"
	"sync"

	"github.com/smarthome-go/homescript/v3/homescript/errors"
	vvalue "github.com/smarthome-go/homescript/v3/homescript/runtime/value"
)

// C17: spawned cores. Scheduling decisions at blocking/sync operations are
// fork variables (bounded number of deviations); a lockset monitor watches
// every Go map shared between goroutines.

// verifSyncExec is a well-behaved host: its output buffer is protected by a mutex.
type verifSyncExec struct {
	verifVmExec
	mu *sync.Mutex
}

func (e verifSyncExec) WriteStringTo(input string) error {
	e.mu.Lock()
	*e.out += input
	e.mu.Unlock()
	return nil
}

var _ vvalue.Executor = verifSyncExec{}

const verifSpawnProgram = "let g = 0;\n" +
	"fn w(a: int, b: int) {\n  println(a - b);\n  g += 1;\n}\n" +
	"fn main() {\n  spawn w(A, B);\n  if N > 1 { spawn w(C, D); }\n  println(\"main\", g >= 0);\n  if N > 2 { spawn w(1000, 1); }\n}\n"

func VerifHarness_Spawn() {
	n := errors.VerifNdIntRange("N", 1, errors.VerifParam("cores", 2))
	a, b := errors.VerifNdInt64("A"), errors.VerifNdInt64("B")
	c, d := errors.VerifNdInt64("C"), errors.VerifNdInt64("D")
	inputs := []verifInput{{name: "A", kind: 'i', i: a}, {name: "B", kind: 'i', i: b}, {name: "C", kind: 'i', i: c}, {name: "D", kind: 'i', i: d}, {name: "N", kind: 'i', i: int64(n)}}
	an := verifAnalyze(verifSpawnProgram, nil, inputs, true)
	if an.hasError {
		errors.VerifInconclusive("spawn program rejected: " + an.describe())
	}
	base := errors.VerifLiveGoroutines()
	var o verifOutcome
	panicked, msg := errors.VerifPanics(func() { o = verifRunVM(an, nil, inputs, verifLimits, newVerifCtx()) })
	if panicked {
		errors.VerifTag("panic", errors.VerifNorm(msg))
	}
	errors.VerifAssert("spawn-never-crashes-the-host", !panicked)
	if panicked {
		return
	}
	errors.VerifReached("returned")
	errors.VerifAssert("run-completes", o.class == "ok")
	lines := []string{"main true\n", fmt.Sprint(a-b) + "\n"}
	if n > 1 {
		lines = append(lines, fmt.Sprint(c-d)+"\n")
	}
	if n > 2 {
		lines = append(lines, "999\n")
	}
	ok := verifIsPermutationOf(o.out, "", lines, make([]bool, len(lines)))
	errors.VerifAssert("every-print-appears-exactly-once-and-whole-with-the-spawn-arguments", ok)
	errors.VerifAssert("wait-returned-after-all-cores-finished", errors.VerifLiveGoroutines() <= base)
}

// verifIsPermutationOf: out equals the concatenation of the lines in some order (each exactly once).
func verifIsPermutationOf(out, prefix string, lines []string, used []bool) bool {
	all := true
	for _, u := range used {
		all = all && u
	}
	if all {
		return out == prefix
	}
	res := false
	for i := range lines {
		if used[i] {
			continue
		}
		used[i] = true
		res = errors.VerifOr(res, verifIsPermutationOf(out, prefix+lines[i], lines, used))
		used[i] = false
	}
	return res
}

// Staggered spawns: a core that finishes at once, a core that outlives it, and a third spawn issued by main after a
// delay (so the wait loop can collect the first core in between). The delays read/write a global, which makes every
// iteration a scheduling point of the engine.
const verifStaggeredProgram = "let g = 0;\nlet t = 0;\n" +
	"fn quick() {\n  g += 1;\n}\n" +
	"fn slow(k: int) {\n  let i = 0;\n  while i < S {\n    i += 1;\n    t += 1;\n  }\n  println(\"slow\", k);\n}\n" +
	"fn main() {\n  spawn quick();\n  spawn slow(1);\n  let j = 0;\n  while j < M {\n    j += 1;\n    t += 1;\n  }\n  spawn slow(2);\n  println(\"main\");\n}\n"

func VerifHarness_SpawnStaggered() {
	s := errors.VerifNdIntRange("S", 1, errors.VerifParam("S", 6))
	m := errors.VerifNdIntRange("M", 0, errors.VerifParam("M", 6))
	errors.VerifTag("delays", fmt.Sprint("S=", s, " M=", m))
	inputs := []verifInput{{name: "S", kind: 'i', i: int64(s)}, {name: "M", kind: 'i', i: int64(m)}}
	an := verifAnalyze(verifStaggeredProgram, nil, inputs, true)
	if an.hasError {
		errors.VerifInconclusive("spawn program rejected: " + an.describe())
	}
	base := errors.VerifLiveGoroutines()
	var o verifOutcome
	panicked, msg := errors.VerifPanics(func() { o = verifRunVM(an, nil, inputs, verifLimits, newVerifCtx()) })
	if panicked {
		errors.VerifTag("panic", errors.VerifNorm(msg))
	}
	errors.VerifAssert("spawn-never-crashes-the-host", !panicked)
	if panicked {
		return
	}
	errors.VerifReached("returned")
	errors.VerifAssert("run-completes", o.class == "ok")
	lines := []string{"main\n", "slow 1\n", "slow 2\n"}
	errors.VerifTag("got", errors.VerifNorm(o.out))
	errors.VerifAssert("every-print-appears-exactly-once-and-whole-with-the-spawn-arguments", verifIsPermutationOf(o.out, "", lines, make([]bool, len(lines))))
	errors.VerifUntag("got")
	errors.VerifAssert("wait-returned-after-all-cores-finished", errors.VerifLiveGoroutines() <= base)
}
