package homescript

import (
	"fmt"

	"github.com/smarthome-go/homescript/v3/homescript/errors"
)

// C03 rules about host-provided entities: trigger statements (callback exists, is an `event` function and has the
// shape the trigger prescribes; the trigger exists; the arguments fit the trigger function) and impl blocks
// (singleton and template exist, capabilities exist and do not conflict, exactly the required methods with the
// template's parameter names/types, return type and modifier, each extracting the singleton).

var vhTypes = []string{"int", "str", "float", "bool"}
var vhLits = []string{"1", "\"s\"", "1.5", "true"}

// VerifHarness_TriggerRules: `trigger CB at|on TRIGGER(ARGS);`
func VerifHarness_TriggerRules() {
	which := errors.VerifNdIntRange("trigger", 0, 1) // 0 minute(minutes: int) / cb(elapsed: int); 1 message(topic: str, qos: int) / cb(topic: str, payload: str)
	imported := errors.VerifNdIntRange("imported", 0, 1) == 1
	cbKind := errors.VerifNdIntRange("callback", 0, 3)  // 0 event fn, 1 plain fn, 2 pub fn, 3 undefined
	p0 := errors.VerifNdIntRange("cbParam0", 0, len(vhTypes)-1) // type of the callback's first parameter
	arity := errors.VerifNdIntRange("cbArity", 0, 3)            // number of callback parameters
	ret := errors.VerifNdIntRange("cbReturn", 0, 1)             // 0 none, 1 -> int
	a0 := errors.VerifNdIntRange("arg0", 0, len(vhTypes)-1)     // type of the first trigger argument
	argc := errors.VerifNdIntRange("argc", 0, 3)
	self := errors.VerifNdIntRange("fromItself", 0, 1) == 1 // the trigger statement sits inside the callback itself
	name := []string{"minute", "message"}[which]
	conn := []string{"at", "on"}[which]
	wantCbTypes := [][]int{{0}, {1, 1}}[which]
	wantArgTypes := [][]int{{0}, {1, 0}}[which]
	errors.VerifTag("case", fmt.Sprintf("%s imported=%v cb=%d p0=%s arity=%d ret=%d a0=%s argc=%d self=%v", name, imported, cbKind, vhTypes[p0], arity, ret, vhTypes[a0], argc, self))

	// callback definition
	params := ""
	cbTypes := []int{}
	for i := 0; i < arity; i++ {
		t := 1 // str
		if i == 0 {
			t = p0
		}
		cbTypes = append(cbTypes, t)
		if i > 0 {
			params += ", "
		}
		params += fmt.Sprintf("p%d: %s", i, vhTypes[t])
	}
	args := ""
	argTypes := []int{}
	for i := 0; i < argc; i++ {
		t := 0 // int
		if i == 0 {
			t = a0
		}
		argTypes = append(argTypes, t)
		if i > 0 {
			args += ", "
		}
		args += vhLits[t]
	}
	stmt := "  trigger cb " + conn + " " + name + "(" + args + ");\n"
	retTxt, retStmt := "", ""
	if ret == 1 {
		retTxt, retStmt = " -> int", "  return 1;\n"
	}
	body := "  println(1);\n"
	if self {
		body = stmt
	}
	cb := []string{"event fn", "fn", "pub fn", ""}[cbKind]
	code := ""
	if imported {
		code += "import trigger " + name + " from triggers;\n"
	}
	if cbKind != 3 {
		code += cb + " cb(" + params + ")" + retTxt + " {\n" + body + retStmt + "}\n"
	}
	mainBody := stmt
	if self {
		mainBody = "  println(2);\n"
	}
	code += "fn main() {\n" + mainBody + "}\n"
	verifDebug("program", code)

	same := func(a, b []int) bool {
		if len(a) != len(b) {
			return false
		}
		for i := range a {
			if a[i] != b[i] {
				return false
			}
		}
		return true
	}
	faulty := !imported || cbKind != 0 || !same(cbTypes, wantCbTypes) || ret != 0 || !same(argTypes, wantArgTypes) || (self && cbKind != 3)
	if self && cbKind == 3 {
		// the statement only exists inside the undefined callback: nothing left to check
		errors.VerifReached("not-applicable")
		return
	}
	var an verifAnalysis
	panicked, pmsg := errors.VerifPanics(func() { an = verifAnalyzeWith(code, verifHost{}, true) })
	if panicked {
		vrAnalyzerPanicked(pmsg)
		return
	}
	errors.VerifReached("analyzed")
	vrSpansHook(an, code)
	if faulty {
		errors.VerifAssert("ill-formed-trigger-statement-rejected", an.hasError)
	} else {
		if an.hasError {
			errors.VerifTag("diag", an.describe())
		}
		errors.VerifAssert("well-formed-trigger-statement-accepted", !an.hasError)
		errors.VerifReached("accepted")
	}
}

// VerifHarness_ImplRules: `impl FooFeature with { CAPS } for $Device { METHODS }`
func VerifHarness_ImplRules() {
	caps := errors.VerifNdIntRange("caps", 0, 4) // light, temperature, light+temperature (conflict), unknown, light+unknown
	singleton := errors.VerifNdIntRange("singleton", 0, 1) == 1
	templ := errors.VerifNdIntRange("template", 0, 1) == 1
	hasDim := errors.VerifNdIntRange("dim", 0, 1) == 1
	hasTemp := errors.VerifNdIntRange("set_temp", 0, 1) == 1
	extra := errors.VerifNdIntRange("extra", 0, 1) == 1
	defect := errors.VerifNdIntRange("defect", 0, 7) // defect of the `dim` method: 0 none, 1 param name, 2 param type, 3 extra param, 4 no param, 5 return type, 6 modifier, 7 no singleton extraction
	capTxt := []string{"light", "temperature", "light, temperature", "nothere", "light, nothere"}[caps]
	errors.VerifTag("case", fmt.Sprintf("caps={%s} singleton=%v templ=%v dim=%v set_temp=%v extra=%v defect=%d", capTxt, singleton, templ, hasDim, hasTemp, extra, defect))
	code := ""
	if templ {
		code += "import templ FooFeature from templates;\n"
	}
	if singleton {
		code += "$Device = { b: int };\n"
	}
	methods := ""
	if hasDim {
		sig := []string{
			"fn dim(self: $Device, percent: int) -> bool",
			"fn dim(self: $Device, pct: int) -> bool",
			"fn dim(self: $Device, percent: str) -> bool",
			"fn dim(self: $Device, percent: int, more: int) -> bool",
			"fn dim(self: $Device) -> bool",
			"fn dim(self: $Device, percent: int) -> int",
			"pub fn dim(self: $Device, percent: int) -> bool",
			"fn dim(percent: int) -> bool",
		}[defect]
		val := "true"
		if defect == 5 {
			val = "1"
		}
		methods += "  " + sig + " { " + val + " }\n"
	}
	if hasTemp {
		methods += "  fn set_temp(self: $Device, celsius: float) { println(celsius); }\n"
	}
	if extra {
		methods += "  fn other(self: $Device) { println(0); }\n"
	}
	code += "impl FooFeature with { " + capTxt + " } for $Device {\n" + methods + "}\nfn main() {\n  println(1);\n}\n"
	verifDebug("program", code)
	needDim := caps == 0
	needTemp := caps == 1
	capsOK := caps <= 1
	faulty := !singleton || !templ || !capsOK
	if capsOK {
		if needDim && (!hasDim || defect != 0) {
			faulty = true
		}
		if needTemp && !hasTemp {
			faulty = true
		}
		if (hasDim && !needDim) || (hasTemp && !needTemp) || extra {
			faulty = true // additional methods
		}
	}
	if !singleton && hasDim && defect != 7 || !singleton && (hasTemp || extra) {
		// methods mention the undeclared singleton type: rejected in any case
		faulty = true
	}
	var an verifAnalysis
	panicked, pmsg := errors.VerifPanics(func() { an = verifAnalyzeWith(code, verifHost{}, true) })
	if panicked {
		vrAnalyzerPanicked(pmsg)
		return
	}
	errors.VerifReached("analyzed")
	vrSpansHook(an, code)
	if faulty {
		errors.VerifAssert("impl-block-not-matching-its-template-rejected", an.hasError)
	} else {
		if an.hasError {
			errors.VerifTag("diag", an.describe())
		}
		errors.VerifAssert("impl-block-matching-its-template-accepted", !an.hasError)
		errors.VerifReached("accepted")
	}
}

// VerifHarness_Triggers (C01): the triggers a program registers, with their arguments, are host-visible effects.
// Argument values are unconstrained host inputs; the expected registrations follow from the source.
func VerifHarness_Triggers() {
	a, b := errors.VerifNdInt64("A"), errors.VerifNdInt64("B")
	p := errors.VerifNdBool("P")
	inputs := []verifInput{{name: "A", kind: 'i', i: a}, {name: "B", kind: 'i', i: b}, {name: "P", kind: 'b', b: p}}
	code := "import trigger minute from triggers;\nimport trigger message from triggers;\n" +
		"event fn cb(elapsed: int) { println(elapsed); }\n" +
		"event fn cbm(topic: str, payload: str) { println(topic, payload); }\n" +
		"fn two(x: int) -> int { return x * 2; }\n" +
		"fn main() {\n" +
		"  trigger cb at minute(two(A) + 1);\n" +
		"  if P {\n    trigger cbm on message(\"t\" + \"x\", B);\n  }\n" +
		"  for i in 0..2 {\n    trigger cb at minute(i);\n  }\n" +
		"  let n = 1 + { trigger cbm on message(\"in\", B - A); 2 };\n" +
		"  println(\"done\", n);\n}\n"
	an := verifAnalyze(code, nil, inputs, true)
	if an.hasError {
		errors.VerifInconclusive("trigger program rejected: " + an.describe())
	}
	errors.VerifTag("__ignore_panic", "C02")
	var o verifOutcome
	crashed, _ := errors.VerifPanics(func() { o = verifRunVM(an, nil, inputs, verifLimits, newVerifCtx()) })
	if crashed {
		return // C02's subject
	}
	errors.VerifReached("ran")
	errors.VerifAssert("vm-completes", o.class == "ok")
	if o.class != "ok" {
		return
	}
	errors.VerifAssert("vm-output", o.out == "done 3\n")
	want := []string{"cb@minute(" + fmt.Sprint(a*2+1) + ")"}
	if p {
		want = append(want, "cbm@message(tx,"+fmt.Sprint(b)+")")
	}
	want = append(want, "cb@minute(0)", "cb@minute(1)", "cbm@message(in,"+fmt.Sprint(b-a)+")")
	errors.VerifAssert("number-of-registered-triggers", len(o.triggers) == len(want))
	if len(o.triggers) != len(want) {
		return
	}
	for i := range want {
		errors.VerifAssert("trigger-registered-with-its-callback-name-and-arguments", o.triggers[i] == want[i])
	}
}

// VerifHarness_Singletons: singletons, template methods with singleton extraction (also mixed with ordinary
// parameters), state kept in the singleton across calls. mode 1 (C01): VM output vs the output the source
// prescribes; mode 4 (C04): VM vs tree interpreter; mode 2 (C02): no Go panic on either back end.
func VerifHarness_Singletons() {
	mode := errors.VerifParam("mode", 1)
	a, b, c := errors.VerifNdInt64("A"), errors.VerifNdInt64("B"), errors.VerifNdInt64("C")
	x := errors.VerifNdFloat64("X")
	inputs := []verifInput{{name: "A", kind: 'i', i: a}, {name: "B", kind: 'i', i: b}, {name: "C", kind: 'i', i: c}, {name: "X", kind: 'f', f: x}}
	code := "import templ FooFeature from templates;\n" +
		"$Device = { b: int, name: str };\n$Other = { c: float };\n" +
		"impl FooFeature with { light } for $Device {\n" +
		"  fn dim(self: $Device, percent: int) -> bool {\n    if self.b == percent { return false; }\n    self.b = percent;\n    true\n  }\n}\n" +
		"impl FooFeature with { temperature } for $Other {\n  fn set_temp(self: $Other, celsius: float) { self.c = celsius; }\n}\n" +
		"fn peek(d: $Device) -> int { d.b }\n" +
		"fn both(d: $Device, o: $Other, k: int) -> int { d.b + k }\n" +
		"fn main() {\n" +
		"  println($Device.b, $Device.name == \"\");\n" +
		"  println(dim(A));\n  println(dim(A));\n" +
		"  println(peek(), $Device.b);\n" +
		"  set_temp(X);\n  println($Other.c == X);\n" +
		"  $Device.b = B;\n  println(both(C));\n" +
		"  let l = [dim(B), dim(B + 1)];\n  println(l, $Device.b);\n" +
		"  for i in 0..3 { dim(i); }\n  println($Device.b);\n}\n"
	an := verifAnalyze(code, nil, inputs, true)
	if an.hasError {
		errors.VerifInconclusive("singleton program rejected: " + an.describe())
	}
	var vm, tr verifOutcome
	if mode == 2 {
		p1, m1 := errors.VerifPanics(func() { vm = verifRunVM(an, nil, inputs, verifLimits, newVerifCtx()) })
		if p1 {
			errors.VerifTag("panic", errors.VerifNorm(m1))
		}
		errors.VerifAssert("vm-no-panic", !p1)
		errors.VerifUntag("panic")
		p2, m2 := errors.VerifPanics(func() { tr = verifRunTree(an, nil, inputs, 100, newVerifCtx()) })
		if p2 {
			errors.VerifTag("panic", errors.VerifNorm(m2))
		}
		errors.VerifAssert("tree-no-panic", !p2)
		errors.VerifReached("ran")
		return
	}
	errors.VerifTag("__ignore_panic", "C02")
	crashed, _ := errors.VerifPanics(func() {
		vm = verifRunVM(an, nil, inputs, verifLimits, newVerifCtx())
		if mode == 4 {
			tr = verifRunTree(an, nil, inputs, 100, newVerifCtx())
		}
	})
	if crashed {
		return
	}
	errors.VerifReached("ran")
	if mode == 4 {
		verifAgree(vm, tr)
		return
	}
	errors.VerifAssert("vm-completes", vm.class == "ok")
	if vm.class != "ok" {
		return
	}
	xEqX := x == x // NaN is not equal to itself
	want := "0 true\n" +
		fmt.Sprint(a != 0) + "\nfalse\n" +
		fmt.Sprint(a) + " " + fmt.Sprint(a) + "\n" +
		fmt.Sprint(xEqX) + "\n" +
		fmt.Sprint(b+c) + "\n" +
		"[false, true] " + fmt.Sprint(b+1) + "\n" +
		"2\n"
	errors.VerifAssert("vm-output", vm.out == want)
}
