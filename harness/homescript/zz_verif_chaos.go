//go:build verif

package homescript

import (
	"math/rand"
	"os"
	"strconv"
	"sync"
	"time"

	"github.com/smarthome-go/homescript/v3/homescript/runtime"
)

// Native replay of schedule-dependent counterexamples: with VERIF_CHAOS_SEED set, every scheduling point of the VM
// (runtime.verifSchedPoint, build tag verif) sleeps for a pseudo-random time, which widens the windows between the
// VM's lock sections the way PCT-style schedule fuzzers do. The replay driver repeats the run with different seeds.
func init() {
	seedTxt := os.Getenv("VERIF_CHAOS_SEED")
	if seedTxt == "" {
		return
	}
	seed, _ := strconv.ParseInt(seedTxt, 10, 64)
	var mu sync.Mutex
	rnd := rand.New(rand.NewSource(seed))
	runtime.VerifSchedHook = func(point string) {
		mu.Lock()
		k := rnd.Intn(8)
		mu.Unlock()
		switch {
		case k < 3:
		case k < 6:
			time.Sleep(time.Duration(1+k) * 300 * time.Microsecond)
		default:
			time.Sleep(time.Duration(k) * 2 * time.Millisecond)
		}
	}
}
