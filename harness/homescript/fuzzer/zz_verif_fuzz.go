package fuzzer

import "math/rand"

// VerifNewTransformer builds a Transformer over a given random source (the engine turns every
// draw into a fork variable; natively the source replays the draws of a counterexample).
func VerifNewTransformer(src rand.Source) Transformer {
	return Transformer{randSource: src, modifications: 0}
}
