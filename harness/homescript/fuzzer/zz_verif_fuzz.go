package fuzzer

import (
	"math/rand"

	"github.com/smarthome-go/homescript/v3/homescript/analyzer/ast"
)

type analyzedStatement = ast.AnalyzedStatement

// VerifNewTransformer builds a Transformer over a given random source (the engine turns every
// draw into a fork variable; natively the source replays the draws of a counterexample).
func VerifNewTransformer(src rand.Source) Transformer {
	return Transformer{randSource: src, modifications: 0}
}

// VerifStmtVariants exposes the transformer's list of behaviour-preserving variants of one statement.
func VerifStmtVariants(src rand.Source, node interface{}) []interface{} {
	tr := Transformer{randSource: src, modifications: 0}
	out := []interface{}{}
	for _, v := range tr.stmtVariants(node.(analyzedStatement)) {
		out = append(out, v)
	}
	return out
}
