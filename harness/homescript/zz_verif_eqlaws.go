package homescript

import (
	"context"
	"fmt"
	"strings"

	"github.com/smarthome-go/homescript/v3/homescript/analyzer/ast"

	herrors "github.com/smarthome-go/homescript/v3/homescript/errors"
	ivalue "github.com/smarthome-go/homescript/v3/homescript/interpreter/value"
	vvalue "github.com/smarthome-go/homescript/v3/homescript/runtime/value"
)

// C13: equality / clone / display laws on values of ONE static type. The type
// shape is drawn first, then independent values of that type (list lengths,
// none/some, any-object key sets and all scalar payloads vary independently).

// cvOfType draws a value of static type t.
func cvOfType(t *cvt, name string) *cvv {
	switch t.k {
	case 'n':
		return &cvv{k: 'n'}
	case 'i':
		return &cvv{k: 'i', i: herrors.VerifNdInt64(name + "_i")}
	case 'f':
		f := herrors.VerifNdFloat64(name + "_f")
		herrors.VerifAssume(f == f) // NaN-free floats (property statement)
		return &cvv{k: 'f', f: f}
	case 'b':
		return &cvv{k: 'b', b: herrors.VerifNdBool(name + "_b")}
	case 's':
		return &cvv{k: 's', i: int64(herrors.VerifNdIntRange(name+"_s", 0, 1))} // two distinct strings
	case 'r':
		return &cvv{k: 'r', i: herrors.VerifNdInt64(name + "_rs"), f: 0, b: herrors.VerifNdBool(name + "_rincl"),
			kids: []*cvv{{k: 'i', i: herrors.VerifNdInt64(name + "_re")}}}
	case 'a':
		v := &cvv{k: 'a'}
		v.keys = cvKeySets[herrors.VerifNdIntRange(name+"_keys", 0, 3)]
		for _, key := range v.keys {
			// the members of an any-object are dynamic: values of different kinds may sit under the same key
			kind := 0
			if key == "a" { // (one key carries the kind selector: the product over both keys adds paths, not cases)
				kind = herrors.VerifNdIntRange(name+"_"+key+"_kind", 0, 2)
			}
			switch kind {
			case 0:
				v.kids = append(v.kids, &cvv{k: 'i', i: herrors.VerifNdInt64(name + "_" + key)})
			case 1:
				v.kids = append(v.kids, &cvv{k: 's', i: int64(herrors.VerifNdIntRange(name+"_"+key+"_s", 0, 1))})
			default:
				v.kids = append(v.kids, &cvv{k: 'b', b: herrors.VerifNdBool(name + "_" + key + "_b")})
			}
		}
		return v
	case 'l':
		v := &cvv{k: 'l'}
		n := herrors.VerifNdIntRange(name+"_n", 0, 2)
		for c := 0; c < n; c++ {
			v.kids = append(v.kids, cvOfType(t.kids[0], fmt.Sprintf("%s_%d", name, c)))
		}
		return v
	case 'O':
		if herrors.VerifNdIntRange(name+"_some", 0, 1) == 0 {
			return &cvv{k: 'N'}
		}
		return &cvv{k: 'S', kids: []*cvv{cvOfType(t.kids[0], name+"_in")}}
	case 'o':
		v := &cvv{k: 'o', keys: t.keys}
		for i, key := range t.keys {
			v.kids = append(v.kids, cvOfType(t.kids[i], name+"_"+key))
		}
		return v
	}
	return &cvv{k: 'n'}
}

var cvStrs = []string{"x", "yy"}

func (v *cvv) vm2() *vvalue.Value {
	switch v.k {
	case 's':
		return vvalue.NewValueString(cvStrs[v.i])
	case 'r':
		return vvalue.NewValueRange(*vvalue.NewValueInt(v.i), *vvalue.NewValueInt(v.kids[0].i), v.b)
	case 'a':
		f := map[string]*vvalue.Value{}
		for i, key := range v.keys {
			f[key] = v.kids[i].vm2()
		}
		return vvalue.NewValueAnyObject(f)
	case 'S':
		return vvalue.NewValueOption(v.kids[0].vm2())
	case 'l':
		items := make([]*vvalue.Value, 0)
		for _, c := range v.kids {
			items = append(items, c.vm2())
		}
		return vvalue.NewValueList(items)
	case 'o':
		fields := map[string]*vvalue.Value{}
		for i, key := range v.keys {
			fields[key] = v.kids[i].vm2()
		}
		return vvalue.NewValueObject(fields)
	}
	return v.vm()
}

func (v *cvv) tree2() *ivalue.Value {
	switch v.k {
	case 's':
		return ivalue.NewValueString(cvStrs[v.i])
	case 'r':
		return ivalue.NewValueRange(*ivalue.NewValueInt(v.i), *ivalue.NewValueInt(v.kids[0].i), v.b)
	case 'a':
		f := map[string]*ivalue.Value{}
		for i, key := range v.keys {
			f[key] = v.kids[i].tree2()
		}
		return ivalue.NewValueAnyObject(f)
	case 'S':
		return ivalue.NewValueOption(v.kids[0].tree2())
	case 'l':
		items := make([]*ivalue.Value, 0)
		for _, c := range v.kids {
			items = append(items, c.tree2())
		}
		return ivalue.NewValueList(items)
	case 'o':
		fields := map[string]*ivalue.Value{}
		for i, key := range v.keys {
			fields[key] = v.kids[i].tree2()
		}
		return ivalue.NewValueObject(fields)
	}
	return v.tree()
}

// cvSameContent is the reference structural equality (B.5).
func cvSameContent(a, b *cvv) bool {
	if a.k != b.k {
		return false
	}
	switch a.k {
	case 'n', 'N':
		return true
	case 'i', 's':
		return a.i == b.i
	case 'f':
		return a.f == b.f
	case 'b':
		return a.b == b.b
	case 'r':
		return herrors.VerifAnd(herrors.VerifAnd(a.i == b.i, a.kids[0].i == b.kids[0].i), a.b == b.b)
	case 'S':
		return cvSameContent(a.kids[0], b.kids[0])
	case 'l':
		if len(a.kids) != len(b.kids) {
			return false
		}
		r := true
		for i := range a.kids {
			r = herrors.VerifAnd(r, cvSameContent(a.kids[i], b.kids[i]))
		}
		return r
	case 'o', 'a':
		if len(a.keys) != len(b.keys) {
			return false
		}
		r := true
		for i := range a.keys {
			if a.keys[i] != b.keys[i] {
				return false
			}
			r = herrors.VerifAnd(r, cvSameContent(a.kids[i], b.kids[i]))
		}
		return r
	}
	return false
}

func cvEqVM(a, b *vvalue.Value) (bool, bool) {
	var r bool
	var intr *vvalue.VmInterrupt
	p, msg := herrors.VerifPanics(func() { r, intr = (*a).IsEqual(*b) })
	if p {
		herrors.VerifTag("panic", herrors.VerifNorm(msg))
	}
	herrors.VerifAssert("is-equal-no-panic", !p)
	herrors.VerifUntag("panic")
	return r, !p && intr == nil
}

func cvEqTree(a, b *ivalue.Value) (bool, bool) {
	var r bool
	var intr *ivalue.Interrupt
	p, msg := herrors.VerifPanics(func() { r, intr = (*a).IsEqual(*b) })
	if p {
		herrors.VerifTag("panic", herrors.VerifNorm(msg))
	}
	herrors.VerifAssert("is-equal-no-panic", !p)
	herrors.VerifUntag("panic")
	return r, !p && intr == nil
}

// VerifHarness_EqLaws: two values of one static type; reflexivity, symmetry,
// == iff same structural content, clone laws, equal display in both runtimes.
// cvCellsVM collects the value cells reachable from v (v itself, list items, object fields, option payloads).
func cvCellsVM(v *vvalue.Value, out *[]*vvalue.Value) {
	if v == nil || *v == nil {
		return
	}
	*out = append(*out, v)
	switch x := (*v).(type) {
	case vvalue.ValueList:
		for _, it := range *x.Values {
			cvCellsVM(it, out)
		}
	case vvalue.ValueObject:
		for _, f := range x.FieldsInternal {
			cvCellsVM(f, out)
		}
	case vvalue.ValueAnyObject:
		for _, f := range x.FieldsInternal {
			cvCellsVM(f, out)
		}
	case vvalue.ValueOption:
		cvCellsVM(x.Inner, out)
	}
}

func VerifHarness_EqLaws() {
	d := herrors.VerifParam("depth", 1)
	lib := herrors.VerifNdIntRange("lib", 0, 1)
	herrors.VerifTag("lib", []string{"vm", "tree"}[lib])
	t := cvGenType(d, "t")
	if t.k == 'A' {
		herrors.VerifReached("any-skipped")
		return
	}
	herrors.VerifTag("type", t.String())
	a := cvOfType(t, "a")
	b := cvOfType(t, "b")
	same := cvSameContent(a, b)
	if lib == 0 {
		va, vb := a.vm2(), b.vm2()
		raa, ok1 := cvEqVM(va, va)
		rab, ok2 := cvEqVM(va, vb)
		rba, ok3 := cvEqVM(vb, va)
		if !(ok1 && ok2 && ok3) {
			return
		}
		herrors.VerifReached("compared")
		herrors.VerifAssert("reflexive", raa)
		herrors.VerifAssert("symmetric", rab == rba)
		herrors.VerifAssert("equal-iff-same-content", rab == same)
		// clone: equal to the original, shares no mutable state
		var c *vvalue.Value
		p, msg := herrors.VerifPanics(func() { c = (*va).Clone() })
		if p {
			herrors.VerifTag("panic", herrors.VerifNorm(msg))
		}
		herrors.VerifAssert("clone-no-panic", !p)
		herrors.VerifUntag("panic")
		if !p && c != nil {
			rc, okc := cvEqVM(c, va)
			if okc {
				herrors.VerifAssert("clone-equals-original", rc)
			}
			// every value cell is assignable through its pointer (Opcode_Assign does *dest = *src): the clone may
			// not share a single cell with the original, at any depth
			var po, pc []*vvalue.Value
			cvCellsVM(va, &po)
			cvCellsVM(c, &pc)
			shared := false
			for _, x := range pc {
				for _, y := range po {
					if x == y {
						shared = true
					}
				}
			}
			herrors.VerifAssert("clone-shares-no-cell-at-any-depth", !shared)
			if (*c).Kind() == vvalue.ListValueKind {
				cl := (*c).(vvalue.ValueList)
				*cl.Values = append(*cl.Values, vvalue.NewValueInt(99))
				herrors.VerifAssert("clone-shares-no-state", len(*(*va).(vvalue.ValueList).Values) == len(a.kids))
			}
			if (*c).Kind() == vvalue.ObjectValueKind && len(a.keys) > 0 {
				co := (*c).(vvalue.ValueObject)
				co.FieldsInternal[a.keys[0]] = vvalue.NewValueString("mutated")
				r2, ok2 := cvEqVM(va, a.vm2())
				if ok2 {
					herrors.VerifAssert("clone-shares-no-state", r2)
				}
			}
		}
		return
	}
	ta, tb := a.tree2(), b.tree2()
	raa, ok1 := cvEqTree(ta, ta)
	rab, ok2 := cvEqTree(ta, tb)
	rba, ok3 := cvEqTree(tb, ta)
	if !(ok1 && ok2 && ok3) {
		return
	}
	herrors.VerifReached("compared")
	herrors.VerifAssert("reflexive", raa)
	herrors.VerifAssert("symmetric", rab == rba)
	herrors.VerifAssert("equal-iff-same-content", rab == same)
}

// VerifHarness_EqTransitive: three values of one static type.
func VerifHarness_EqTransitive() {
	lib := herrors.VerifNdIntRange("lib", 0, 1)
	herrors.VerifTag("lib", []string{"vm", "tree"}[lib])
	t := cvGenType(herrors.VerifParam("depth", 1), "t")
	if t.k == 'A' {
		return
	}
	herrors.VerifTag("type", t.String())
	a, b, c := cvOfType(t, "a"), cvOfType(t, "b"), cvOfType(t, "c")
	var ab, bc, ac bool
	ok := true
	if lib == 0 {
		va, vb, vc := a.vm2(), b.vm2(), c.vm2()
		var o1, o2, o3 bool
		ab, o1 = cvEqVM(va, vb)
		bc, o2 = cvEqVM(vb, vc)
		ac, o3 = cvEqVM(va, vc)
		ok = o1 && o2 && o3
	} else {
		ta, tb, tc := a.tree2(), b.tree2(), c.tree2()
		var o1, o2, o3 bool
		ab, o1 = cvEqTree(ta, tb)
		bc, o2 = cvEqTree(tb, tc)
		ac, o3 = cvEqTree(ta, tc)
		ok = o1 && o2 && o3
	}
	if !ok {
		return
	}
	herrors.VerifReached("compared")
	herrors.VerifAssert("transitive", herrors.VerifImplies(herrors.VerifAnd(ab, bc), ac))
}

// VerifHarness_DisplayAgree: both runtimes render the same value as the same text.
func VerifHarness_DisplayAgree() {
	t := cvGenType(herrors.VerifParam("depth", 1), "t")
	if t.k == 'A' {
		return
	}
	herrors.VerifTag("type", t.String())
	a := cvOfType(t, "a")
	var dv, dt string
	p, msg := herrors.VerifPanics(func() {
		dv, _ = (*a.vm2()).Display()
		dt, _ = (*a.tree2()).Display()
	})
	if p {
		herrors.VerifTag("panic", herrors.VerifNorm(msg))
	}
	herrors.VerifAssert("display-no-panic", !p)
	if p {
		return
	}
	herrors.VerifReached("displayed")
	herrors.VerifAssert("both-runtimes-render-the-same-text", dv == dt)
}

// cvGenJsonType draws a JSON-representable type: int, float, bool, str, list, object, option.
func cvGenJsonType(depth int, name string) *cvt {
	kinds := "ifbsloO"
	max := len(kinds) - 1
	if depth == 0 {
		max = 3
	}
	k := kinds[herrors.VerifNdIntRange(name+"_k", 0, max)]
	t := &cvt{k: k}
	switch k {
	case 'l', 'O':
		t.kids = []*cvt{cvGenJsonType(depth-1, name+"_in")}
	case 'o':
		t.keys = cvKeySets[herrors.VerifNdIntRange(name+"_keys", 0, 3)]
		for _, key := range t.keys {
			t.kids = append(t.kids, cvGenJsonType(depth-1, name+"_"+key))
		}
	}
	return t
}

// VerifHarness_JsonRoundTrip: serialising a JSON-representable value and parsing it back under its type yields an equal value.
func VerifHarness_JsonRoundTrip() {
	t := cvGenJsonType(herrors.VerifParam("depth", 1), "t")
	if t.k == 'O' && t.kids[0].k == 'O' {
		return // ??T has no distinct JSON representation for some(none); outside "JSON-representable"
	}
	herrors.VerifTag("type", t.String())
	a := cvOfType(t, "a")
	cvFinite(a)
	va := a.vm2()
	typ := t.ast()
	var back *vvalue.Value
	failed := false
	wrappedInList := false
	var cctx context.Context = newVerifCtx()
	p, msg := herrors.VerifPanics(func() {
		// the program-level path: v.to_json().parse_json() as T
		f, _ := (*va).Fields()
		toJSON, has := f["to_json"]
		if !has {
			// scalars have no to_json member: wrap them in a list
			wrapped := vvalue.NewValueList([]*vvalue.Value{va})
			wf, _ := (*wrapped).Fields()
			toJSON = wf["to_json"]
			typ = ast.NewListType(typ, herrors.Span{})
			va = wrapped
			wrappedInList = true
		}
		text, intr := (*toJSON).(vvalue.ValueBuiltinFunction).Callback(nil, &cctx, herrors.Span{})
		if intr != nil {
			failed = true
			return
		}
		sf, _ := (*text).Fields()
		parsed, intr := (*sf["parse_json"]).(vvalue.ValueBuiltinFunction).Callback(nil, &cctx, herrors.Span{})
		if intr != nil {
			failed = true
			return
		}
		res, cerr := vvalue.DeepCast(*parsed, typ, herrors.Span{}, true)
		if cerr != nil {
			failed = true
			return
		}
		back = res
	})
	if p {
		herrors.VerifTag("panic", herrors.VerifNorm(msg))
	}
	herrors.VerifAssert("json-no-panic", !p)
	if p {
		return
	}
	herrors.VerifReached("round-tripped")
	herrors.VerifAssert("json-representable-value-serialises", !failed)
	if failed || back == nil {
		return
	}
	eq, ok := cvEqVM(back, va)
	if !ok {
		return
	}
	if cvNoneInList(a, wrappedInList) {
		herrors.VerifAssert("round-trip-of-a-list-with-none-elements-yields-an-equal-value", eq)
	} else if cvIntsWithin53(a) {
		herrors.VerifAssert("round-trip-yields-an-equal-value", eq)
	} else {
		herrors.VerifAssert("round-trip-of-ints-beyond-2^53-yields-an-equal-value", eq)
	}
}

// cvFinite assumes every float leaf to be finite (JSON cannot represent infinities).
func cvFinite(v *cvv) {
	if v.k == 'f' {
		herrors.VerifAssume(v.f <= 1.7976931348623157e308)
		herrors.VerifAssume(v.f >= -1.7976931348623157e308)
	}
	for _, c := range v.kids {
		cvFinite(c)
	}
}

// cvNoneInList: some list element is `none`.
func cvNoneInList(v *cvv, inList bool) bool {
	if v.k == 'N' {
		return inList
	}
	for _, c := range v.kids {
		if cvNoneInList(c, v.k == 'l') {
			return true
		}
	}
	return false
}

func cvIntsWithin53(v *cvv) bool {
	r := true
	if v.k == 'i' {
		r = herrors.VerifAnd(v.i <= 9007199254740992, v.i >= -9007199254740992)
	}
	for _, c := range v.kids {
		r = herrors.VerifAnd(r, cvIntsWithin53(c))
	}
	return r
}

// VerifHarness_DisplaySpine: both value libraries render the same text for chains of D containers (one-element list,
// Some, one-field object, two-field object) around a leaf, where multi-line renderings nest (an object below a list
// below an object ...), and for a string leaf that contains a line break.
func VerifHarness_DisplaySpine() {
	d := herrors.VerifParam("depth", 3)
	v := cvGenDisplaySpine(d, "v")
	herrors.VerifTag("shape", v.String())
	var dv, dt string
	p, msg := herrors.VerifPanics(func() {
		dv, _ = (*v.vmD()).Display()
		dt, _ = (*v.treeD()).Display()
	})
	if p {
		herrors.VerifTag("panic", herrors.VerifNorm(msg))
	}
	herrors.VerifAssert("display-no-panic", !p)
	if p {
		return
	}
	herrors.VerifReached("displayed")
	herrors.VerifAssert("both-runtimes-render-the-same-text", dv == dt)
	// an independent check of the layout: every line break of the rendering is followed by the indentation of its depth
	herrors.VerifAssert("rendering-is-the-layout-of-the-reference", dv == cvRefDisplay(v))
}

// leaf kinds: 'i' (concrete 7), 'm' multi-line string
func cvGenDisplaySpine(depth int, name string) *cvv {
	if depth == 0 {
		if herrors.VerifNdIntRange(name+"_leaf", 0, 1) == 0 {
			return &cvv{k: 'i', i: 7}
		}
		return &cvv{k: 'm'}
	}
	switch herrors.VerifNdIntRange(name+"_c", 0, 3) {
	case 0:
		return &cvv{k: 'l', kids: []*cvv{cvGenDisplaySpine(depth-1, name+"_0")}}
	case 1:
		return &cvv{k: 'S', kids: []*cvv{cvGenDisplaySpine(depth-1, name+"_in")}}
	case 2:
		return &cvv{k: 'o', keys: []string{"a"}, kids: []*cvv{cvGenDisplaySpine(depth-1, name+"_a")}}
	}
	return &cvv{k: 'o', keys: []string{"a", "b"}, kids: []*cvv{cvGenDisplaySpine(depth-1, name+"_a"), {k: 'i', i: 7}}}
}

func (v *cvv) vmD() *vvalue.Value {
	switch v.k {
	case 'i':
		return vvalue.NewValueInt(v.i)
	case 'm':
		return vvalue.NewValueString("x\ny")
	case 'l':
		return vvalue.NewValueList([]*vvalue.Value{v.kids[0].vmD()})
	case 'S':
		return vvalue.NewValueOption(v.kids[0].vmD())
	}
	f := map[string]*vvalue.Value{}
	for i, k := range v.keys {
		f[k] = v.kids[i].vmD()
	}
	return vvalue.NewValueObject(f)
}

func (v *cvv) treeD() *ivalue.Value {
	switch v.k {
	case 'i':
		return ivalue.NewValueInt(v.i)
	case 'm':
		return ivalue.NewValueString("x\ny")
	case 'l':
		return ivalue.NewValueList([]*ivalue.Value{v.kids[0].treeD()})
	case 'S':
		return ivalue.NewValueOption(v.kids[0].treeD())
	}
	f := map[string]*ivalue.Value{}
	for i, k := range v.keys {
		f[k] = v.kids[i].treeD()
	}
	return ivalue.NewValueObject(f)
}

// cvRefDisplay: objects render as "{\n" + fields (sorted, each "    key: value" with the value's inner line breaks
// indented by four more spaces, separated by ",\n") + "\n}"; lists as [a, b]; options as Some(x); strings as their text.
func cvRefDisplay(v *cvv) string {
	switch v.k {
	case 'i':
		return fmt.Sprint(v.i)
	case 'm':
		return "x\ny"
	case 'l':
		return "[" + cvRefDisplay(v.kids[0]) + "]"
	case 'S':
		return "Some(" + cvRefDisplay(v.kids[0]) + ")"
	}
	out := "{\n"
	for i, k := range v.keys {
		if i > 0 {
			out += ",\n"
		}
		out += "    " + k + ": " + strings.ReplaceAll(cvRefDisplay(v.kids[i]), "\n", "\n    ")
	}
	return out + "\n}"
}
