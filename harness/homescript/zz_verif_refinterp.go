package homescript

// Definitional reference interpreter for the core language, over the PARSED
// tree (parser/ast). It states the source-level semantics named by C01/C11 and
// nothing else: 64-bit two's-complement ints, IEEE doubles, evaluation in
// program order, short-circuit && / ||, lexical block scoping with shadowing,
// lists and objects shared by reference while scalars are copied, `for` over a
// snapshot, value of if/match/block/try = value of the branch taken,
// break/continue to the innermost loop, return to the function boundary, throw
// to the nearest dynamically enclosing catch, fatal errors not catchable.
// Anything outside this subset sets `unsupported` and the check skips the
// comparison (never guesses).

import (
	"fmt"

	pAst "github.com/smarthome-go/homescript/v3/homescript/parser/ast"
)

type rvObj struct {
	keys []string
	vals map[string]*rv
}

type rv struct {
	k     byte // n null, i int, f float, b bool, s string, l list, o object, r range, F function, O option
	i     int64
	f     float64
	b     bool
	s     string
	l     *[]*rv
	o     *rvObj
	fn    *pAst.FunctionDefinition
	lit   *pAst.FunctionLiteralExpression
	env   *rvEnv
	opt   *rv
	re    int64
	rincl bool
	bi    string // builtin name
	self  *rv    // receiver of a bound builtin member
}

type rvEnv struct {
	vars   map[string]*rv
	parent *rvEnv
}

func (e *rvEnv) lookup(name string) *rv {
	for c := e; c != nil; c = c.parent {
		if v, ok := c.vars[name]; ok {
			return v
		}
	}
	return nil
}

const (
	rcNone = iota
	rcBreak
	rcContinue
	rcReturn
	rcThrow
	rcFatal
)

type rvState struct {
	out         string
	fns         map[string]*pAst.FunctionDefinition
	globals     *rvEnv
	ctl         int
	ret         *rv
	throwMsg    string
	throwLine   int64 // line of the throw call (the position a caught error carries)
	fatalKind   string
	unsupported string
	depth       int
	steps       int
	maxDepth    int
	maxSteps    int
	undefined   bool // the definition leaves the behaviour open (e.g. shift count >= 64)
}

func rvNull() *rv            { return &rv{k: 'n'} }
func rvInt(i int64) *rv      { return &rv{k: 'i', i: i} }
func rvFloat(f float64) *rv  { return &rv{k: 'f', f: f} }
func rvBool(b bool) *rv      { return &rv{k: 'b', b: b} }
func rvStr(s string) *rv     { return &rv{k: 's', s: s} }
func (s *rvState) unsup(what string) *rv {
	if s.unsupported == "" {
		s.unsupported = what
	}
	s.ctl = rcFatal
	s.fatalKind = "unsupported"
	return rvNull()
}
func (s *rvState) fatal(kind string) *rv {
	s.ctl = rcFatal
	s.fatalKind = kind
	return rvNull()
}

func (s *rvState) display(v *rv) string {
	switch v.k {
	case 'n':
		return "null"
	case 'i':
		return fmt.Sprint(v.i)
	case 'f':
		return fmt.Sprint(v.f)
	case 'b':
		return fmt.Sprint(v.b)
	case 's':
		return v.s
	case 'l':
		r := "["
		for i, e := range *v.l {
			if i > 0 {
				r += ", "
			}
			r += s.display(e)
		}
		return r + "]"
	case 'O':
		if v.opt == nil {
			return "none"
		}
		return "Some(" + s.display(v.opt) + ")"
	case 'r':
		return fmt.Sprint(v.i) + ".." + fmt.Sprint(v.re)
	}
	s.unsup("display of " + string(v.k))
	return ""
}

func (s *rvState) equal(a, b *rv) bool {
	if a.k != b.k {
		return false
	}
	switch a.k {
	case 'n':
		return true
	case 'i':
		return a.i == b.i
	case 'f':
		return a.f == b.f
	case 'b':
		return a.b == b.b
	case 's':
		return a.s == b.s
	case 'l':
		if len(*a.l) != len(*b.l) {
			return false
		}
		for i := range *a.l {
			if !s.equal((*a.l)[i], (*b.l)[i]) {
				return false
			}
		}
		return true
	case 'O':
		if a.opt == nil || b.opt == nil {
			return a.opt == nil && b.opt == nil
		}
		return s.equal(a.opt, b.opt)
	}
	s.unsup("equality of " + string(a.k))
	return false
}

// copyScalar: scalars are copied on binding, containers shared.
func rvBind(v *rv) *rv {
	switch v.k {
	case 'l', 'o':
		return v
	}
	c := *v
	return &c
}

func (s *rvState) block(b pAst.Block, env *rvEnv) *rv {
	inner := &rvEnv{vars: map[string]*rv{}, parent: env}
	for _, st := range b.Statements {
		s.stmt(st, inner)
		if s.ctl != rcNone {
			return rvNull()
		}
	}
	if b.Expression != nil {
		return s.expr(b.Expression, inner)
	}
	return rvNull()
}

func (s *rvState) stmt(st pAst.Statement, env *rvEnv) {
	s.steps++
	if s.steps > s.maxSteps {
		s.unsup("reference step budget")
		return
	}
	switch n := st.(type) {
	case pAst.LetStatement:
		v := s.expr(n.Expression, env)
		if s.ctl != rcNone {
			return
		}
		env.vars[n.Ident.Ident()] = rvBind(v)
	case pAst.ExpressionStatement:
		s.expr(n.Expression, env)
	case pAst.ReturnStatement:
		var v *rv = rvNull()
		if n.Expression != nil {
			v = s.expr(n.Expression, env)
			if s.ctl != rcNone {
				return
			}
		}
		s.ret = v
		s.ctl = rcReturn
	case pAst.BreakStatement:
		s.ctl = rcBreak
	case pAst.ContinueStatement:
		s.ctl = rcContinue
	case pAst.LoopStatement:
		for {
			s.steps++
			if s.steps > s.maxSteps {
				s.unsup("reference step budget")
				return
			}
			s.block(n.Body, env)
			if s.ctl == rcBreak {
				s.ctl = rcNone
				return
			}
			if s.ctl == rcContinue {
				s.ctl = rcNone
				continue
			}
			if s.ctl != rcNone {
				return
			}
		}
	case pAst.WhileStatement:
		for {
			s.steps++
			if s.steps > s.maxSteps {
				s.unsup("reference step budget")
				return
			}
			c := s.expr(n.Condition, env)
			if s.ctl != rcNone {
				return
			}
			if !c.b {
				return
			}
			s.block(n.Body, env)
			if s.ctl == rcBreak {
				s.ctl = rcNone
				return
			}
			if s.ctl == rcContinue {
				s.ctl = rcNone
				continue
			}
			if s.ctl != rcNone {
				return
			}
		}
	case pAst.ForStatement:
		it := s.expr(n.IterExpression, env)
		if s.ctl != rcNone {
			return
		}
		var items []*rv
		switch it.k {
		case 'l':
			items = append(items, (*it.l)...) // snapshot
		case 'r':
			// `a..b` counts up from a to b-1 when a < b and down from a to b+1 otherwise; `..=` also yields b.
			if it.re-it.i > 64 || it.i-it.re > 64 {
				s.unsup("long range")
				return
			}
			if it.i < it.re {
				for x := it.i; x < it.re; x++ {
					items = append(items, rvInt(x))
				}
			} else {
				for x := it.i; x > it.re; x-- {
					items = append(items, rvInt(x))
				}
			}
			if it.rincl {
				items = append(items, rvInt(it.re))
			}
		case 's':
			// a string is iterated character by character (each a one-character string)
			for _, r := range []rune(it.s) {
				items = append(items, rvStr(string(r)))
			}
		default:
			s.unsup("for over " + string(it.k))
			return
		}
		for _, item := range items {
			inner := &rvEnv{vars: map[string]*rv{n.Identifier.Ident(): rvBind(item)}, parent: env}
			s.block(n.Body, inner)
			if s.ctl == rcBreak {
				s.ctl = rcNone
				return
			}
			if s.ctl == rcContinue {
				s.ctl = rcNone
				continue
			}
			if s.ctl != rcNone {
				return
			}
		}
	default:
		s.unsup(fmt.Sprintf("statement %T", st))
	}
}

func (s *rvState) intOp(op pAst.InfixOperator, a, b int64) *rv {
	switch op {
	case pAst.PlusInfixOperator:
		return rvInt(a + b)
	case pAst.MinusInfixOperator:
		return rvInt(a - b)
	case pAst.MultiplyInfixOperator:
		return rvInt(a * b)
	case pAst.DivideInfixOperator:
		if b == 0 {
			return s.fatal("value")
		}
		return rvInt(a / b)
	case pAst.ModuloInfixOperator:
		if b == 0 {
			return s.fatal("value")
		}
		return rvInt(a % b)
	case pAst.ShiftLeftInfixOperator:
		if b < 0 || b > 63 {
			s.undefined = true
			return s.unsup("shift count outside 0..63")
		}
		return rvInt(a << uint64(b))
	case pAst.ShiftRightInfixOperator:
		if b < 0 || b > 63 {
			s.undefined = true
			return s.unsup("shift count outside 0..63")
		}
		return rvInt(a >> uint64(b))
	case pAst.BitOrInfixOperator:
		return rvInt(a | b)
	case pAst.BitAndInfixOperator:
		return rvInt(a & b)
	case pAst.BitXorInfixOperator:
		return rvInt(a ^ b)
	case pAst.LessThanInfixOperator:
		return rvBool(a < b)
	case pAst.LessThanEqualInfixOperator:
		return rvBool(a <= b)
	case pAst.GreaterThanInfixOperator:
		return rvBool(a > b)
	case pAst.GreaterThanEqualInfixOperator:
		return rvBool(a >= b)
	}
	return s.unsup("int operator " + op.String())
}

func (s *rvState) floatOp(op pAst.InfixOperator, a, b float64) *rv {
	switch op {
	case pAst.PlusInfixOperator:
		return rvFloat(a + b)
	case pAst.MinusInfixOperator:
		return rvFloat(a - b)
	case pAst.MultiplyInfixOperator:
		return rvFloat(a * b)
	case pAst.DivideInfixOperator:
		if b == 0 {
			s.undefined = true
			return s.unsup("float division by zero")
		}
		return rvFloat(a / b)
	case pAst.LessThanInfixOperator:
		return rvBool(a < b)
	case pAst.LessThanEqualInfixOperator:
		return rvBool(a <= b)
	case pAst.GreaterThanInfixOperator:
		return rvBool(a > b)
	case pAst.GreaterThanEqualInfixOperator:
		return rvBool(a >= b)
	}
	return s.unsup("float operator " + op.String())
}

var rvAssignToInfix = map[pAst.AssignOperator]pAst.InfixOperator{
	pAst.PlusAssignOperatorKind: pAst.PlusInfixOperator, pAst.MinusAssignOperatorKind: pAst.MinusInfixOperator,
	pAst.MultiplyAssignOperatorKind: pAst.MultiplyInfixOperator, pAst.DivideAssignOperatorKind: pAst.DivideInfixOperator,
	pAst.ModuloAssignOperatorKind: pAst.ModuloInfixOperator, pAst.ShiftLeftAssignOperatorKind: pAst.ShiftLeftInfixOperator,
	pAst.ShiftRightAssignOperatorKind: pAst.ShiftRightInfixOperator, pAst.BitOrAssignOperatorKind: pAst.BitOrInfixOperator,
	pAst.BitAndAssignOperatorKind: pAst.BitAndInfixOperator, pAst.BitXorAssignOperatorKind: pAst.BitXorInfixOperator,
}

func (s *rvState) binary(op pAst.InfixOperator, l, r *rv) *rv {
	switch op {
	case pAst.EqualInfixOperator:
		return rvBool(s.equal(l, r))
	case pAst.NotEqualInfixOperator:
		return rvBool(!s.equal(l, r))
	}
	if l.k != r.k {
		return s.unsup("mixed operand kinds")
	}
	switch l.k {
	case 'i':
		return s.intOp(op, l.i, r.i)
	case 'f':
		return s.floatOp(op, l.f, r.f)
	case 'b':
		switch op {
		case pAst.BitOrInfixOperator:
			return rvBool(l.b || r.b)
		case pAst.BitAndInfixOperator:
			return rvBool(l.b && r.b)
		case pAst.BitXorInfixOperator:
			return rvBool(l.b != r.b)
		}
	case 's':
		if op == pAst.PlusInfixOperator {
			return rvStr(l.s + r.s)
		}
	}
	return s.unsup("operator " + op.String() + " on " + string(l.k))
}

// lvalue resolves an assignable place.
func (s *rvState) lvalue(e pAst.Expression, env *rvEnv) *rv {
	switch n := e.(type) {
	case pAst.IdentExpression:
		v := env.lookup(n.Ident.Ident())
		if v == nil {
			return s.unsup("assignment to unknown " + n.Ident.Ident())
		}
		return v
	case pAst.GroupedExpression:
		return s.lvalue(n.Inner, env)
	case pAst.IndexExpression:
		base := s.expr(n.Base, env)
		if s.ctl != rcNone {
			return rvNull()
		}
		idx := s.expr(n.Index, env)
		if s.ctl != rcNone {
			return rvNull()
		}
		return s.index(base, idx)
	case pAst.MemberExpression:
		base := s.expr(n.Base, env)
		if s.ctl != rcNone {
			return rvNull()
		}
		if base.k == 'o' && n.Operator == pAst.DotMemberOperator {
			if f, ok := base.o.vals[n.Member.Ident()]; ok {
				return f
			}
		}
	}
	return s.unsup(fmt.Sprintf("lvalue %T", e))
}

func (s *rvState) index(base, idx *rv) *rv {
	switch base.k {
	case 'l':
		if idx.k != 'i' {
			return s.unsup("non-int index")
		}
		n := int64(len(*base.l))
		i := idx.i
		if i < 0 {
			i += n
		}
		if i < 0 || i >= n {
			return s.fatal("index")
		}
		return (*base.l)[i]
	case 'o':
		if idx.k == 's' {
			if f, ok := base.o.vals[idx.s]; ok {
				return f
			}
			return s.fatal("index")
		}
	}
	return s.unsup("index of " + string(base.k))
}

func (s *rvState) callFn(params []pAst.FnParam, body pAst.Block, defEnv *rvEnv, args []*rv) *rv {
	if len(params) != len(args) {
		return s.unsup("arity")
	}
	s.depth++
	if s.depth > s.maxDepth {
		s.depth--
		return s.fatal("stackoverflow")
	}
	env := &rvEnv{vars: map[string]*rv{}, parent: defEnv}
	for i, p := range params {
		env.vars[p.Ident.Ident()] = rvBind(args[i])
	}
	v := s.block(body, env)
	s.depth--
	if s.ctl == rcReturn {
		s.ctl = rcNone
		return s.ret
	}
	if s.ctl == rcBreak || s.ctl == rcContinue {
		return s.unsup("break/continue escaping a function")
	}
	return v
}

func (s *rvState) expr(e pAst.Expression, env *rvEnv) *rv {
	s.steps++
	if s.steps > s.maxSteps {
		return s.unsup("reference step budget")
	}
	switch n := e.(type) {
	case pAst.IntLiteralExpression:
		return rvInt(n.Value)
	case pAst.FloatLiteralExpression:
		return rvFloat(n.Value)
	case pAst.BoolLiteralExpression:
		return rvBool(n.Value)
	case pAst.StringLiteralExpression:
		return rvStr(n.Value)
	case pAst.NullLiteralExpression:
		return rvNull()
	case pAst.NoneLiteralExpression:
		return &rv{k: 'O'}
	case pAst.IdentExpression:
		if n.IsSingleton {
			return s.unsup("singleton")
		}
		name := n.Ident.Ident()
		if v := env.lookup(name); v != nil {
			return v
		}
		if f, ok := s.fns[name]; ok {
			return &rv{k: 'F', fn: f}
		}
		switch name {
		case "println", "print", "throw":
			return &rv{k: 'F', bi: name}
		}
		return s.unsup("identifier " + name)
	case pAst.GroupedExpression:
		return s.expr(n.Inner, env)
	case pAst.RangeLiteralExpression:
		a := s.expr(n.Start, env)
		if s.ctl != rcNone {
			return rvNull()
		}
		b := s.expr(n.End, env)
		if s.ctl != rcNone {
			return rvNull()
		}
		if a.k != 'i' || b.k != 'i' {
			return s.unsup("non-int range")
		}
		return &rv{k: 'r', i: a.i, re: b.i, rincl: n.EndIsInclusive}
	case pAst.ListLiteralExpression:
		items := []*rv{}
		for _, x := range n.Values {
			v := s.expr(x, env)
			if s.ctl != rcNone {
				return rvNull()
			}
			items = append(items, rvBind(v))
		}
		return &rv{k: 'l', l: &items}
	case pAst.ObjectLiteralExpression:
		o := &rvObj{vals: map[string]*rv{}}
		for _, f := range n.Fields {
			v := s.expr(f.Expression, env)
			if s.ctl != rcNone {
				return rvNull()
			}
			o.keys = append(o.keys, f.Key.Ident())
			o.vals[f.Key.Ident()] = rvBind(v)
		}
		return &rv{k: 'o', o: o}
	case pAst.FunctionLiteralExpression:
		lit := n
		return &rv{k: 'F', lit: &lit, env: env}
	case pAst.PrefixExpression:
		v := s.expr(n.Base, env)
		if s.ctl != rcNone {
			return rvNull()
		}
		switch n.Operator {
		case pAst.MinusPrefixOperator:
			if v.k == 'i' {
				return rvInt(-v.i)
			}
			if v.k == 'f' {
				return rvFloat(-v.f)
			}
		case pAst.NegatePrefixOperator:
			if v.k == 'b' {
				return rvBool(!v.b)
			}
			if v.k == 'i' {
				return rvInt(^v.i)
			}
		case pAst.IntoSomePrefixOperator:
			return &rv{k: 'O', opt: rvBind(v)}
		}
		return s.unsup("prefix operator")
	case pAst.InfixExpression:
		if n.Operator == pAst.LogicalAndInfixOperator || n.Operator == pAst.LogicalOrInfixOperator {
			l := s.expr(n.Lhs, env)
			if s.ctl != rcNone {
				return rvNull()
			}
			if l.k != 'b' {
				return s.unsup("logical operator on non-bool")
			}
			if n.Operator == pAst.LogicalAndInfixOperator && !l.b {
				return rvBool(false)
			}
			if n.Operator == pAst.LogicalOrInfixOperator && l.b {
				return rvBool(true)
			}
			r := s.expr(n.Rhs, env)
			if s.ctl != rcNone {
				return rvNull()
			}
			return rvBool(r.b)
		}
		l := s.expr(n.Lhs, env)
		if s.ctl != rcNone {
			return rvNull()
		}
		r := s.expr(n.Rhs, env)
		if s.ctl != rcNone {
			return rvNull()
		}
		return s.binary(n.Operator, l, r)
	case pAst.AssignExpression:
		// right-hand side first, then the place (the statement gives no order for places; families avoid side effects there)
		r := s.expr(n.Rhs, env)
		if s.ctl != rcNone {
			return rvNull()
		}
		place := s.lvalue(n.Lhs, env)
		if s.ctl != rcNone {
			return rvNull()
		}
		nv := r
		if n.AssignOperator != pAst.StdAssignOperatorKind {
			op, ok := rvAssignToInfix[n.AssignOperator]
			if !ok {
				return s.unsup("assign operator")
			}
			nv = s.binary(op, place, r)
			if s.ctl != rcNone {
				return rvNull()
			}
		}
		*place = *rvBind(nv)
		return rvNull()
	case pAst.IndexExpression:
		base := s.expr(n.Base, env)
		if s.ctl != rcNone {
			return rvNull()
		}
		idx := s.expr(n.Index, env)
		if s.ctl != rcNone {
			return rvNull()
		}
		if base.k == 's' {
			return s.unsup("string index")
		}
		return s.index(base, idx)
	case pAst.MemberExpression:
		if n.Operator != pAst.DotMemberOperator {
			return s.unsup("-> / ~> member")
		}
		base := s.expr(n.Base, env)
		if s.ctl != rcNone {
			return rvNull()
		}
		m := n.Member.Ident()
		if base.k == 'o' {
			if f, ok := base.o.vals[m]; ok {
				return f
			}
		}
		if base.k == 'l' && (m == "push" || m == "len") {
			return &rv{k: 'F', bi: "list." + m, self: base}
		}
		if base.k == 'o' && m == "message" {
			return s.unsup("missing object field")
		}
		if base.k == 'r' {
			switch m {
			case "start":
				return rvInt(base.i)
			case "end":
				return rvInt(base.re)
			case "diff", "rev":
				return &rv{k: 'F', bi: "range." + m, self: base}
			}
		}
		return s.unsup("member " + m)
	case pAst.CallExpression:
		if n.IsSpawn {
			return s.unsup("spawn")
		}
		f := s.expr(n.Base, env)
		if s.ctl != rcNone {
			return rvNull()
		}
		var args []*rv
		for _, a := range n.Arguments.List {
			v := s.expr(a, env)
			if s.ctl != rcNone {
				return rvNull()
			}
			args = append(args, v)
		}
		if f.k != 'F' {
			return s.unsup("call of non-function")
		}
		switch {
		case f.bi == "println" || f.bi == "print":
			line := ""
			for i, a := range args {
				if i > 0 {
					line += " "
				}
				line += s.display(a)
			}
			if f.bi == "println" {
				line += "\n"
			}
			if s.ctl != rcNone {
				return rvNull()
			}
			s.out += line
			return rvNull()
		case f.bi == "throw":
			if len(args) != 1 {
				return s.unsup("throw arity")
			}
			s.throwMsg = s.display(args[0])
			s.throwLine = int64(n.Span().Start.Line)
			if s.ctl != rcNone {
				return rvNull()
			}
			s.ctl = rcThrow
			return rvNull()
		case f.bi == "list.push":
			*f.self.l = append(*f.self.l, rvBind(args[0]))
			return rvNull()
		case f.bi == "list.len":
			return rvInt(int64(len(*f.self.l)))
		case f.bi == "range.diff":
			if f.self.i > f.self.re {
				return rvInt(f.self.i - f.self.re)
			}
			return rvInt(f.self.re - f.self.i)
		case f.bi == "range.rev":
			return &rv{k: 'r', i: f.self.re, re: f.self.i, rincl: f.self.rincl}
		case f.fn != nil:
			return s.callFn(f.fn.Parameters, f.fn.Body, s.globals, args)
		case f.lit != nil:
			return s.callFn(f.lit.Parameters, f.lit.Body, f.env, args)
		}
		return s.unsup("call")
	case pAst.BlockExpression:
		return s.block(n.Block, env)
	case pAst.IfExpression:
		c := s.expr(n.Condition, env)
		if s.ctl != rcNone {
			return rvNull()
		}
		if c.k != 'b' {
			return s.unsup("non-bool condition")
		}
		if c.b {
			return s.block(n.ThenBlock, env)
		}
		if n.ElseBlock != nil {
			return s.block(*n.ElseBlock, env)
		}
		return rvNull()
	case pAst.MatchExpression:
		c := s.expr(n.ControlExpression, env)
		if s.ctl != rcNone {
			return rvNull()
		}
		for _, arm := range n.Arms {
			for _, lit := range arm.Literals {
				if lit.Literal == nil {
					return s.expr(arm.Action, env)
				}
				lv := s.expr(lit.Literal, env)
				if s.ctl != rcNone {
					return rvNull()
				}
				if s.equal(c, lv) {
					return s.expr(arm.Action, env)
				}
			}
		}
		return rvNull()
	case pAst.TryExpression:
		depth := s.depth
		v := s.block(n.TryBlock, env)
		if s.ctl == rcThrow {
			s.ctl = rcNone
			s.depth = depth
			o := &rvObj{keys: []string{"message", "line"}, vals: map[string]*rv{"message": rvStr(s.throwMsg), "line": rvInt(s.throwLine)}}
			inner := &rvEnv{vars: map[string]*rv{n.CatchIdent.Ident(): {k: 'o', o: o}}, parent: env}
			return s.block(n.CatchBlock, inner)
		}
		return v
	case pAst.CastExpression:
		return s.unsup("cast")
	}
	return s.unsupExpr(e)
}

func (s *rvState) unsupExpr(e pAst.Expression) *rv { return s.unsup(fmt.Sprintf("expression %T", e)) }

// verifRefRun interprets main() of a parsed program with the given host inputs.
func verifRefRun(prog pAst.Program, inputs []verifInput) (verifOutcome, string, bool) {
	s := &rvState{fns: map[string]*pAst.FunctionDefinition{}, maxDepth: 90, maxSteps: 4000}
	s.globals = &rvEnv{vars: map[string]*rv{}}
	for _, in := range inputs {
		switch in.kind {
		case 'i':
			s.globals.vars[in.name] = rvInt(in.i)
		case 'f':
			s.globals.vars[in.name] = rvFloat(in.f)
		case 'b':
			s.globals.vars[in.name] = rvBool(in.b)
		case 's':
			s.globals.vars[in.name] = rvStr(in.s)
		}
	}
	if len(prog.Imports) > 0 || len(prog.Singletons) > 0 || len(prog.ImplBlocks) > 0 {
		return verifOutcome{}, "imports/singletons/impl", false
	}
	for i := range prog.Functions {
		f := &prog.Functions[i]
		s.fns[f.Ident.Ident()] = f
	}
	for _, g := range prog.Globals {
		v := s.expr(g.Expression, s.globals)
		if s.ctl != rcNone {
			break
		}
		s.globals.vars[g.Ident.Ident()] = rvBind(v)
	}
	if s.ctl == rcNone {
		m, ok := s.fns["main"]
		if !ok {
			return verifOutcome{}, "no main", false
		}
		s.callFn(m.Parameters, m.Body, s.globals, nil)
	}
	o := verifOutcome{out: s.out, class: "ok"}
	switch s.ctl {
	case rcThrow:
		o.class = "fatal:uncaught"
		o.msg = s.throwMsg
	case rcFatal:
		o.class = "fatal:" + s.fatalKind
	}
	if s.unsupported != "" {
		return o, s.unsupported, false
	}
	return o, "", true
}
