package homescript

import (
	"fmt"

	"github.com/smarthome-go/homescript/v3/homescript/analyzer"
	"github.com/smarthome-go/homescript/v3/homescript/analyzer/ast"
	"github.com/smarthome-go/homescript/v3/homescript/diagnostic"
	"github.com/smarthome-go/homescript/v3/homescript/errors"
)

// C03: rule templates. Each template yields a program that is well-typed
// unless its fault switch is on; type kinds, arities and positions are
// selectors. Oracle: fault <=> at least one error-level diagnostic.

var vrTypes = []string{"int", "float", "bool", "str", "null", "[int]", "?int", "{ a: int }", "range"}
var vrLits = []string{"1", "1.5", "true", "\"s\"", "null", "[1]", "?1", "new { a: 1 }", "1..2"}

const vrScalarTypes = 4 // int float bool str

// vrPosition wraps statement(s) at a position inside main's body.
var vrPositions = []string{"plain", "block", "loop", "if", "match", "after-closure", "while"}

func vrWrap(pos int, stmts string) string {
	switch vrPositions[pos] {
	case "block":
		return "  {\n  " + stmts + "\n  }\n"
	case "loop":
		return "  loop {\n  " + stmts + "\n    break;\n  }\n"
	case "if":
		return "  if 1 < 2 {\n  " + stmts + "\n  }\n"
	case "match":
		return "  match 1 {\n    1 => {\n  " + stmts + "\n    },\n    _ => {},\n  }\n"
	case "after-closure":
		return "  let cl = fn(q: int) -> str { \"s\" };\n  println(cl(1));\n" + stmts + "\n"
	case "while":
		return "  let wi = 0;\n  while wi < 1 {\n    wi += 1;\n  " + stmts + "\n  }\n"
	}
	return stmts + "\n"
}

type vrCase struct {
	code    string
	faulty  bool
	what    string
	culprit string // when set: the lexeme an error diagnostic has to point at (C08)
}

func vrMain(body string) string { return "fn main() {\n" + body + "}\n" }

// vrBuild builds the program of template t.
func vrBuild(t int) vrCase {
	nd := func(name string, lo, hi int) int { return errors.VerifNdIntRange(name, lo, hi) }
	switch t {
	case 0: // let annotation vs initialiser
		t1, t2, pos := nd("t1", 0, len(vrTypes)-1), nd("t2", 0, len(vrTypes)-1), nd("pos", 0, len(vrPositions)-1)
		if t1 == 6 || t1 == 8 || t2 == 8 && t1 != 8 { // `let a: ?int = 1` (lifting) and range annotations: not stated by the rules
			t1, t2 = 0, 0
		}
		if t1 == 4 && t2 == 4 { // a null value may not be passed to println: not this rule's subject
			t1, t2 = 0, 0
		}
		return vrCase{vrMain(vrWrap(pos, "  let a: "+vrTypes[t1]+" = "+vrLits[t2]+";\n  println(a);")), t1 != t2, "let-annotation " + vrTypes[t1] + " = " + vrTypes[t2] + " @" + vrPositions[pos], ""}
	case 1: // assignment
		t1, t2, pos := nd("t1", 0, 5), nd("t2", 0, 5), nd("pos", 0, len(vrPositions)-1)
		if t1 == 4 && t2 == 4 {
			t1, t2 = 0, 0
		}
		return vrCase{vrMain("  let a = " + vrLits[t1] + ";\n" + vrWrap(pos, "  a = "+vrLits[t2]+";") + "  println(a);\n"), t1 != t2, "assign " + vrTypes[t1] + " = " + vrTypes[t2] + " @" + vrPositions[pos], ""}
	case 2: // condition of if / while
		t1, kind := nd("t1", 0, 5), nd("kind", 0, 1)
		stmt := "  if " + vrLits[t1] + " { println(1); }"
		if kind == 1 {
			stmt = "  while " + vrLits[t1] + " { break; }"
		}
		return vrCase{vrMain(stmt + "\n"), t1 != 2, "condition " + vrTypes[t1], ""}
	case 3: // operands of + and <
		t1, t2, op := nd("t1", 0, 5), nd("t2", 0, 5), nd("op", 0, 1)
		ops := []string{"+", "<"}
		okT := t1 == t2 && (t1 == 0 || t1 == 1 || (t1 == 3 && op == 0))
		return vrCase{vrMain("  println(" + vrLits[t1] + " " + ops[op] + " " + vrLits[t2] + ");\n"), !okT, "operands " + vrTypes[t1] + ops[op] + vrTypes[t2], ""}
	case 4: // call arity
		np, na, pos := nd("np", 0, 3), nd("na", 0, 3), nd("pos", 0, len(vrPositions)-1)
		params, args := "", ""
		for i := 0; i < np; i++ {
			if i > 0 {
				params += ", "
			}
			params += fmt.Sprintf("p%d: int", i)
		}
		for i := 0; i < na; i++ {
			if i > 0 {
				args += ", "
			}
			args += "1"
		}
		return vrCase{"fn f(" + params + ") -> int { return 1; }\n" + vrMain(vrWrap(pos, "  println(f("+args+"));")), np != na, fmt.Sprintf("arity %d/%d @%s", np, na, vrPositions[pos]), ""}
	case 5: // argument type
		t1, t2 := nd("t1", 0, 5), nd("t2", 0, 5)
		if t1 == 4 && t2 == 4 {
			t1, t2 = 0, 0
		}
		return vrCase{"fn f(p: " + vrTypes[t1] + ") -> int { return 1; }\n" + vrMain("  println(f("+vrLits[t2]+"));\n"), t1 != t2, "argument " + vrTypes[t1] + " <- " + vrTypes[t2], ""}
	case 6: // return type, at several positions inside f
		t1, t2, pos := nd("t1", 0, 5), nd("t2", 0, 5), nd("pos", 0, len(vrPositions)-1)
		if t1 == 4 {
			t1 = 0
		}
		body := vrWrap(pos, "  if 1 < 2 { return "+vrLits[t2]+"; }") + "  return " + vrLits[t1] + ";\n"
		return vrCase{"fn f() -> " + vrTypes[t1] + " {\n" + body + "}\n" + vrMain("  println(f());\n"), t1 != t2, "return " + vrTypes[t1] + " <- " + vrTypes[t2] + " @" + vrPositions[pos], ""}
	case 7: // branches of an if expression
		t1, t2 := nd("t1", 0, 5), nd("t2", 0, 5)
		if t1 == 4 && t2 == 4 {
			t1, t2 = 0, 0
		}
		return vrCase{vrMain("  let v = if 1 < 2 { " + vrLits[t1] + " } else { " + vrLits[t2] + " };\n  println(v);\n"), t1 != t2, "branches " + vrTypes[t1] + "/" + vrTypes[t2], ""}
	case 8: // iterator type
		t1 := nd("t1", 0, len(vrTypes)-1)
		iterable := t1 == 3 || t1 == 5 || t1 == 8
		return vrCase{vrMain("  for x in " + vrLits[t1] + " { println(x); }\n"), !iterable, "iterator " + vrTypes[t1], ""}
	case 9: // unknown identifier / type / member
		kind, pos := nd("kind", 0, 3), nd("pos", 0, len(vrPositions)-1)
		stmts := []string{"  println(1);", "  println(nothere);", "  let a: Nothere = 1;\n  println(a);", "  println((1).nothere);"}
		return vrCase{code: vrMain(vrWrap(pos, stmts[kind])), faulty: kind != 0, what: fmt.Sprintf("unknown kind%d @%s", kind, vrPositions[pos]), culprit: []string{"", "nothere", "Nothere", "nothere"}[kind]}
	case 10: // break / continue outside a loop
		kw, where := nd("kw", 0, 1), nd("where", 0, 5)
		k := []string{"break", "continue"}[kw]
		var body string
		fault := true
		switch where {
		case 0:
			body = "  " + k + ";\n"
		case 1:
			body = "  if 1 < 2 { " + k + "; }\n"
		case 2:
			body = "  loop { " + k + "; }\n"
			fault = false
			if kw == 1 {
				body = "  let n = 0;\n  loop { n += 1; if n > 1 { break; } continue; }\n"
			}
		case 3: // inside a closure that is defined inside a loop: the closure body is not in the loop
			body = "  loop {\n    let g = fn() { " + k + "; };\n    g();\n    break;\n  }\n"
		case 4:
			body = "  for i in 0..1 { if i == 0 { " + k + "; } }\n"
			fault = false
		case 5:
			body = "  { " + k + "; }\n"
		}
		cul := ""
		if fault {
			cul = k
		}
		return vrCase{code: vrMain(body), faulty: fault, what: k + fmt.Sprintf(" where%d", where), culprit: cul}
	case 11: // duplicate definitions
		kind := nd("kind", 0, 9)
		progs := []string{
			"fn a() {}\nfn b() {}\n" + vrMain("  a();\n  b();\n"),
			"fn a() {}\nfn a() {}\n" + vrMain("  a();\n"),
			"let g = 1;\nlet g = 2;\n" + vrMain("  println(g);\n"),
			"type T = int;\ntype T = str;\n" + vrMain("  let x: T = 1;\n  println(x);\n"),
			"fn a(p: int, p: int) {}\n" + vrMain("  a(1, 2);\n"),
			"let a = 1;\nfn a() -> int { 2 }\n" + vrMain("  println(a);\n"),
			"fn a() -> int { 2 }\nlet a = 1;\n" + vrMain("  println(a);\n"),
			"$S = { a: int };\n$S = { b: int };\n" + vrMain("  println(1);\n"),
			"fn a() {}\nevent fn a(x: int) {}\n" + vrMain("  a();\n"),
			"pub fn a() {}\nfn a() {}\n" + vrMain("  a();\n"),
		}
		return vrCase{progs[kind], kind != 0, fmt.Sprintf("duplicate kind%d", kind), ""}
	case 12: // implicit any
		kind := nd("kind", 0, 2)
		progs := []string{
			vrMain("  let x: {a: int} = \"{}\".parse_json() as {a: int};\n  println(x.a);\n"),
			vrMain("  let x = \"{}\".parse_json();\n  println(x);\n"),
			vrMain("  let x: int = \"1\".parse_json();\n  println(x);\n"),
		}
		return vrCase{progs[kind], kind == 1, fmt.Sprintf("implicit-any kind%d", kind), ""}
	case 13: // main
		kind := nd("kind", 0, 3)
		progs := []string{
			vrMain("  println(1);\n"),
			"fn notmain() {}\n",
			"fn main(a: int) { println(a); }\n",
			"fn main() -> int { return 1; }\n",
		}
		return vrCase{progs[kind], kind != 0, fmt.Sprintf("main kind%d", kind), ""}
	case 14: // the enclosing function's return type still applies after a closure literal
		t2 := nd("t2", 0, 3)
		return vrCase{"fn f() -> int {\n  let g = fn() -> str { \"s\" };\n  println(g());\n  return " + vrLits[t2] + ";\n}\n" + vrMain("  println(f());\n"), t2 != 0, "return-after-closure " + vrTypes[t2], ""}
	case 15: // non-constant global
		kind := nd("kind", 0, 1)
		if kind == 0 {
			return vrCase{"let g = 1 + 2;\n" + vrMain("  println(g);\n"), false, "global-init kind0", ""}
		}
		// a call (which the program could observe: it prints) anywhere inside the initializer makes it non-constant
		forms := []string{"%E", "%E..3", "0..%E", "[1, 2][%E]", "[%E]", "new { k: %E }", "-%E", "%E + 1", "1 + %E", "(%E)", "%E as float",
			"?%E", "{ %E }", "if true { %E } else { 1 }", "match 1 { 1 => %E, _ => 2 }", "!(%E == 1)", "[%E][0]", "new { k: [%E] }.k",
			"[1, 2][0..%E]", "(0..%E).start", "[%E].len()", "%E == 1 || true", "try { %E } catch e { 1 }"}
		form := nd("form", 0, len(forms)-1)
		init := ""
		for i := 0; i < len(forms[form]); i++ {
			if forms[form][i] == '%' && i+1 < len(forms[form]) {
				init += "f()"
				i++
				continue
			}
			init += string(forms[form][i])
		}
		return vrCase{"fn f() -> int { println(\"side effect\"); return 1; }\nlet g = " + init + ";\n" + vrMain("  println(g);\n"), true, "global-init non-constant `" + forms[form] + "`", ""}
	case 16: // list element types / index type / member call argument
		kind := nd("kind", 0, 4)
		progs := []string{
			vrMain("  let l = [1, 2];\n  l.push(3);\n  println(l[0]);\n"),
			vrMain("  let l = [1, \"a\"];\n  println(l);\n"),
			vrMain("  let l = [1, 2];\n  println(l[\"x\"]);\n"),
			vrMain("  let l = [1, 2];\n  l.push(\"s\");\n  println(l);\n"),
			vrMain("  let o = new { a: 1 };\n  o.a = \"s\";\n  println(o.a);\n"),
		}
		return vrCase{progs[kind], kind != 0, fmt.Sprintf("container kind%d", kind), ""}
	}
	if t == 17 { // function type annotations
		kind := nd("kind", 0, 3)
		progs := []string{
			vrMain("  let f: fn(a: int, b: int) -> int = fn(a: int, b: int) -> int { a * 2 - b };\n  println(f(1, 2));\n"),
			vrMain("  let f: fn(a: int) -> int = fn(a: int, b: int) -> int { a * 2 - b };\n  println(f(1));\n"),
			vrMain("  let f: fn(a: int) -> str = fn(a: int) -> int { a };\n  println(f(1));\n"),
			vrMain("  let f: fn(a: str) -> int = fn(a: int) -> int { a };\n  println(f(\"s\"));\n"),
		}
		return vrCase{progs[kind], kind != 0, fmt.Sprintf("fn-type-annotation kind%d", kind), ""}
	}
	if t == 18 { // `return;` without a value in a function or closure that declares a return type
		t1, pos, where := nd("t1", 0, 4), nd("pos", 0, len(vrPositions)-1), nd("where", 0, 1)
		decl := " -> " + vrTypes[t1]
		tail := "  return " + vrLits[t1] + ";\n"
		if t1 == 4 {
			decl, tail = "", ""
		}
		body := vrWrap(pos, "  if 1 < 2 { return; }") + tail
		if where == 0 {
			return vrCase{"fn f()" + decl + " {\n" + body + "}\n" + vrMain("  f();\n"), t1 != 4, "bare-return in fn ->" + vrTypes[t1] + " @" + vrPositions[pos], ""}
		}
		return vrCase{vrMain("  let g = fn()" + decl + " {\n" + body + "  };\n  g();\n"), t1 != 4, "bare-return in closure ->" + vrTypes[t1] + " @" + vrPositions[pos], ""}
	}
	switch t {
	case 19: // match: arm literal type vs subject type, arm result types among each other
		ts, tl, r1, r2 := nd("subject", 0, 3), nd("literal", 0, 3), nd("r1", 0, 3), nd("r2", 0, 3)
		code := vrMain("  let v = match " + vrLits[ts] + " {\n    " + vrLits[tl] + " => " + vrLits[r1] + ",\n    _ => " + vrLits[r2] + ",\n  };\n  println(v);\n")
		return vrCase{code, ts != tl || r1 != r2, "match " + vrTypes[ts] + " arm " + vrTypes[tl] + " results " + vrTypes[r1] + "/" + vrTypes[r2], ""}
	case 20: // argument types of builtin members
		m, ta := nd("member", 0, 3), nd("arg", 0, 5)
		calls := []string{"\"s\".repeat(%A)", "[1, 2].contains(%A)", "\"a,b\".split(%A)", "[1.5].contains(%A)"}
		want := []int{0, 0, 3, 1}[m]
		call := vsReplaceArg(calls[m], vrLits[ta])
		return vrCase{vrMain("  println(" + call + ");\n"), ta != want, "member-argument " + calls[m] + " <- " + vrTypes[ta], ""}
	case 21: // closure call: arity and argument type
		np, na, ta := nd("np", 0, 2), nd("na", 0, 2), nd("arg", 0, 3)
		params, args, body := "", "", "0"
		for i := 0; i < np; i++ {
			if i > 0 {
				params += ", "
			}
			params += fmt.Sprintf("p%d: int", i)
			body = "p0"
		}
		for i := 0; i < na; i++ {
			if i > 0 {
				args += ", "
			}
			if i == 0 {
				args += vrLits[ta]
			} else {
				args += "1"
			}
		}
		code := vrMain("  let f = fn(" + params + ") -> int { " + body + " };\n  println(f(" + args + "));\n")
		return vrCase{code, np != na || (na > 0 && ta != 0), fmt.Sprintf("closure-call %d/%d first arg %s", np, na, vrTypes[ta]), ""}
	case 22: // options: unwrap_or argument, option used where its inner type is expected
		kind, ta := nd("kind", 0, 2), nd("arg", 0, 3)
		progs := []string{
			"  let o: ?int = ?1;\n  println(o.unwrap_or(" + vrLits[ta] + "));\n",
			"  let o: ?int = ?1;\n  let n: " + vrTypes[ta] + " = o.unwrap();\n  println(n);\n",
			"  let o = ?" + vrLits[ta] + ";\n  let n: int = o;\n  println(n);\n",
		}
		faulty := []bool{ta != 0, ta != 0, true}[kind]
		return vrCase{vrMain(progs[kind]), faulty, fmt.Sprintf("option kind%d %s", kind, vrTypes[ta]), ""}
	case 23: // range bounds and index types
		kind, t1, t2 := nd("kind", 0, 2), nd("t1", 0, 3), nd("t2", 0, 3)
		progs := []string{
			"  for i in " + vrLits[t1] + ".." + vrLits[t2] + " { println(i); }\n",
			"  let l = [1, 2];\n  println(l[" + vrLits[t1] + "]);\n",
			"  let s = \"ab\";\n  println(s[" + vrLits[t1] + "]);\n",
		}
		faulty := []bool{t1 != 0 || t2 != 0, t1 != 0, t1 != 0}[kind]
		if kind != 0 && t2 != 0 {
			t2 = 0
		}
		return vrCase{vrMain(progs[kind]), faulty, fmt.Sprintf("range/index kind%d %s %s", kind, vrTypes[t1], vrTypes[t2]), ""}
	case 24: // spawn arguments, object member access
		kind, ta := nd("kind", 0, 2), nd("arg", 0, 3)
		progs := []string{
			"fn w(a: int) { println(a); }\n" + vrMain("  spawn w("+vrLits[ta]+");\n"),
			"fn w(a: int) { println(a); }\n" + vrMain("  spawn w(1, "+vrLits[ta]+");\n"),
			vrMain("  let o = new { a: 1 };\n  let x: " + vrTypes[ta] + " = o.a;\n  println(x, o.a);\n"),
		}
		faulty := []bool{ta != 0, true, ta != 0}[kind]
		return vrCase{progs[kind], faulty, fmt.Sprintf("spawn/member kind%d %s", kind, vrTypes[ta]), ""}
	}
	if t == 25 { // a type alias defined in an inner scope shadows an outer alias of the same name only inside that scope
		outer, inner, useIn, useOut := nd("outer", 0, 3), nd("inner", 0, 3), nd("useInner", 0, 3), nd("useOuter", 0, 3)
		pos := nd("pos", 0, 2)
		open := []string{"  {\n", "  if 1 < 2 {\n", "  for k in 0..1 {\n"}[pos]
		code := "type Id = " + vrTypes[outer] + ";\nfn main() {\n" + open +
			"    type Id = " + vrTypes[inner] + ";\n    let b: Id = " + vrLits[useIn] + ";\n    println(b);\n  }\n" +
			"  let c: Id = " + vrLits[useOut] + ";\n  println(c);\n}\n"
		return vrCase{code, useIn != inner || useOut != outer, fmt.Sprintf("alias-shadowing outer=%s inner=%s uses %s/%s @%d", vrTypes[outer], vrTypes[inner], vrTypes[useIn], vrTypes[useOut], pos), ""}
	}
	if t == 26 { // an element/payload/field type mismatch through a variable: the diagnostic has to point at the offending statement
		kind, via := nd("kind", 0, 2), nd("via", 0, 2)
		src := []string{"[1, 2]", "?1", "new { f: 1 }"}[kind]
		srcT := []string{"[int]", "?int", "{ f: int }"}[kind]
		dstT := []string{"[str]", "?str", "{ f: str }"}[kind]
		offending := "let bad: " + dstT + " = v;"
		var code string
		switch via {
		case 0: // a local variable defined by an earlier statement
			code = vrMain("  let v = " + src + ";\n  println(v);\n  " + offending + "\n  println(bad);\n")
		case 1: // a parameter
			code = "fn f(v: " + srcT + ") {\n  " + offending + "\n  println(bad);\n}\n" + vrMain("  f("+src+");\n")
		default: // the result of a call
			offending = "let bad: " + dstT + " = mk();"
			code = "fn mk() -> " + srcT + " { " + src + " }\n" + vrMain("  "+offending+"\n  println(bad);\n")
		}
		return vrCase{code: code, faulty: true, what: fmt.Sprintf("container-mismatch kind%d via%d", kind, via), culprit: offending}
	}
	if t == 27 { // a loop without break never terminates (type never), whatever diverging expressions precede it elsewhere
		before, inner, brk := nd("before", 0, 3), nd("inner", 0, 2), nd("hasBreak", 0, 1)
		pre := []string{"", "fn a() { throw(\"x\"); }\n", "fn a() { loop { break; } }\n", "fn a() -> int { if 1 < 2 { return 1; } throw(\"y\") }\n"}[before]
		first := []string{"", "    if 2 < 1 { throw(\"z\"); }\n", "    for k in 0..1 { if k == 0 { continue; } }\n"}[inner]
		body := "  loop {\n" + first + "    return 1;\n  }\n"
		if brk == 1 {
			body = "  loop {\n" + first + "    if 1 < 2 { break; }\n    return 1;\n  }\n"
		}
		code := pre + "fn b() -> int {\n" + body + "}\n" + vrMain("  println(b());\n")
		// with a break the loop can be left and the function body then yields null where int is required
		return vrCase{code, brk == 1, fmt.Sprintf("loop-never-terminates before=%d inner=%d break=%d", before, inner, brk), ""}
	}
	return vrCase{vrMain("  println(1);\n"), false, "trivial", ""}
}

// vsReplaceArg replaces %A in a call template.
func vsReplaceArg(tmpl, arg string) string {
	out := ""
	for i := 0; i < len(tmpl); i++ {
		if tmpl[i] == '%' && i+1 < len(tmpl) && tmpl[i+1] == 'A' {
			out += arg
			i++
			continue
		}
		out += string(tmpl[i])
	}
	return out
}

const vrTemplates = 28

func VerifHarness_Rules() {
	t := errors.VerifNdIntRange("template", 0, vrTemplates-1)
	c := vrBuild(t)
	errors.VerifTag("rule", c.what)
	verifDebug("program", c.code)
	var an verifAnalysis
	panicked, pmsg := errors.VerifPanics(func() { an = verifAnalyze(c.code, nil, nil, true) })
	if panicked {
		vrAnalyzerPanicked(pmsg)
		return
	}
	errors.VerifReached("analyzed")
	vrSpansHook(an, c.code)
	if c.faulty && c.culprit != "" && errors.VerifParam("spans", 0) == 1 {
		hit := false
		for _, d := range an.diags {
			if d.Level == diagnostic.DiagnosticLevelError && verifSpanValid(d.Span, c.code) && verifSpanOverlaps(d.Span, c.code, c.culprit) {
				hit = true
			}
		}
		errors.VerifAssert("diagnostic-points-at-the-culprit", hit)
	}
	if c.faulty {
		errors.VerifAssert("ill-typed-program-rejected", an.hasError)
	} else {
		if an.hasError {
			errors.VerifTag("diag", an.describe())
		}
		errors.VerifAssert("well-typed-program-accepted", !an.hasError)
	}
}

// ---- operator admissibility and recorded expression types ----

var vrOps = []string{"+", "-", "*", "/", "%", "**", "<<", ">>", "|", "&", "^", "==", "!=", "<", ">", "<=", ">=", "&&", "||"}

// vrOpRule: (admitted?, known?, result type index) for `lit(T) op lit(T)`; T in int(0) float(1) bool(2) str(3).
func vrOpRule(op string, t int) (admitted bool, known bool, result int) {
	switch op {
	case "+":
		return t == 0 || t == 1 || t == 3, true, t
	case "-", "*", "/":
		return t == 0 || t == 1, true, t
	case "%", "**":
		if t == 1 {
			return false, false, t // the language definition is silent on float % and float **
		}
		return t == 0, true, t
	case "<<", ">>":
		return t == 0, true, t
	case "|", "&", "^":
		return t == 0 || t == 2, true, t
	case "==", "!=":
		return true, true, 2
	case "<", ">", "<=", ">=":
		return t == 0 || t == 1, true, 2
	case "&&", "||":
		return t == 2, true, 2
	}
	return false, false, 0
}

// VerifHarness_ExprTypes: `let v = L op R;` — accepted iff the operator admits the operand type(s),
// and the type recorded for the expression is the one the rule assigns.
func VerifHarness_ExprTypes() {
	t1 := errors.VerifNdIntRange("t1", 0, vrScalarTypes-1)
	t2 := errors.VerifNdIntRange("t2", 0, vrScalarTypes-1)
	op := vrOps[errors.VerifNdIntRange("op", 0, len(vrOps)-1)]
	errors.VerifTag("expr", vrTypes[t1]+" "+op+" "+vrTypes[t2])
	code := vrMain("  let v = " + vrLits[t1] + " " + op + " " + vrLits[t2] + ";\n  println(v);\n")
	var an verifAnalysis
	panicked, pmsg := errors.VerifPanics(func() { an = verifAnalyze(code, nil, nil, true) })
	if panicked {
		vrAnalyzerPanicked(pmsg)
		return
	}
	errors.VerifReached("analyzed")
	vrSpansHook(an, code)
	if t1 != t2 {
		errors.VerifAssert("mixed-operand-types-rejected", an.hasError)
		return
	}
	admitted, known, result := vrOpRule(op, t1)
	if !known {
		return
	}
	if !admitted {
		errors.VerifAssert("inadmissible-operator-rejected", an.hasError)
		return
	}
	if an.hasError {
		errors.VerifTag("diag", an.describe())
	}
	errors.VerifAssert("admissible-operator-accepted", !an.hasError)
	if an.hasError {
		return
	}
	mod := an.modules[verifFile]
	for _, f := range mod.Functions {
		if f.Ident.Ident() != "main" {
			continue
		}
		let, ok := f.Body.Statements[0].(ast.AnalyzedLetStatement)
		if !ok {
			errors.VerifAssert("let-statement-recorded", false)
			return
		}
		errors.VerifReached("typed")
		errors.VerifAssert("recorded-expression-type", let.Expression.Type().String() == vrTypes[result])
		errors.VerifAssert("recorded-variable-type", let.VarType.String() == vrTypes[result])
	}
}

// cvCompatible: reference for TypeCheck(got, expected): structural equality modulo `any` (which the analyzer handles by annotation rules).
func cvCompatible(g, e *cvt) bool {
	if e.k == 'A' || g.k == 'A' {
		return true
	}
	if g.k != e.k {
		return false
	}
	switch g.k {
	case 'l', 'O':
		return cvCompatible(g.kids[0], e.kids[0])
	case 'o':
		if len(g.keys) != len(e.keys) {
			return false
		}
		for i := range g.keys {
			if g.keys[i] != e.keys[i] || !cvCompatible(g.kids[i], e.kids[i]) {
				return false
			}
		}
	}
	return true
}

// VerifHarness_TypeCheck: Analyzer.TypeCheck(got, expected) vs the reference on type trees of the stated depth.
func VerifHarness_TypeCheck() {
	d := errors.VerifParam("depth", 1)
	g := cvGenType(d, "g")
	e := cvGenType(d, "e")
	errors.VerifTag("pair", g.String()+" vs "+e.String())
	a := analyzer.NewAnalyzer(verifHost{}, verifAnalyzerScope(nil))
	var cerr *analyzer.CompatibilityError
	panicked, msg := errors.VerifPanics(func() {
		cerr = a.TypeCheck(g.ast(), e.ast(), analyzer.TypeCheckOptions{AllowFunctionTypes: true})
	})
	if panicked {
		errors.VerifTag("panic", errors.VerifNorm(msg))
	}
	errors.VerifAssert("typecheck-no-panic", !panicked)
	if panicked {
		return
	}
	errors.VerifReached("checked")
	if cvCompatible(g, e) {
		errors.VerifAssert("compatible-types-accepted", cerr == nil)
	} else {
		errors.VerifAssert("incompatible-types-rejected", cerr != nil)
	}
}

// ---- value-yielding constructs with a diverging branch ----

// vrDivergeForms: %V is the yielded value, the other branch leaves by return/break/continue/throw.
var vrDivergeForms = []string{
	"if 1 < 2 { %V } else { %X }",
	"if 1 < 2 { %X } else { %V }",
	"if 1 < 2 { %V } else if 2 < 3 { %X } else { %V }",
	"{ if 2 < 1 { %X } %V }",
	"match 1 { 1 => %V, _ => { %X } }",
	"match 1 { 1 => { %X }, _ => %V }",
	"try { %V } catch e { %X }",
}
var vrDivergeExits = []string{"return;", "break;", "continue;", "throw(\"x\");"}

func vrSubst(s, v, x string) string {
	out := ""
	for i := 0; i < len(s); i++ {
		if s[i] == '%' && i+1 < len(s) {
			if s[i+1] == 'V' {
				out += v
			} else {
				out += x
			}
			i++
			continue
		}
		out += string(s[i])
	}
	return out
}

// VerifHarness_Diverge: an expression one of whose branches diverges has the type of the branch that yields a
// value: `let a: T1 = <form with value of type T2>` is accepted iff T1 == T2, the recorded types are T2, and the
// same holds when the expression is a function's result or a call argument.
func VerifHarness_Diverge() {
	form := errors.VerifNdIntRange("form", 0, len(vrDivergeForms)-1)
	exit := errors.VerifNdIntRange("exit", 0, len(vrDivergeExits)-1)
	ctx := errors.VerifNdIntRange("ctx", 0, 4)
	t1 := errors.VerifNdIntRange("t1", 0, vrScalarTypes-1)
	t2 := errors.VerifNdIntRange("t2", 0, vrScalarTypes-1)
	x := vrDivergeExits[exit]
	inLoop := exit == 1 || exit == 2
	expr := vrSubst(vrDivergeForms[form], vrLits[t2], x)
	errors.VerifTag("case", fmt.Sprintf("%s exit=%s ctx=%d %s<-%s", vrDivergeForms[form], x, ctx, vrTypes[t1], vrTypes[t2]))
	wrap := func(stmts string) string {
		if inLoop {
			return "  loop {\n" + stmts + "    break;\n  }\n"
		}
		return stmts
	}
	if ctx == 4 {
		// the construct is a statement whose non-diverging branch yields nothing: its recorded type is null (not never),
		// so the statements behind it are reachable and no value is dropped
		if t1 != 0 || t2 != 0 {
			errors.VerifReached("not-applicable")
			return
		}
		stmt := vrSubst(vrDivergeForms[form], "println(0)", x)
		code4 := vrMain(wrap("  " + stmt + ";\n  println(1);\n"))
		verifDebug("program", code4)
		var an4 verifAnalysis
		panicked4, pmsg4 := errors.VerifPanics(func() { an4 = verifAnalyze(code4, nil, nil, true) })
		if panicked4 {
			vrAnalyzerPanicked(pmsg4)
			return
		}
		errors.VerifReached("analyzed")
		vrSpansHook(an4, code4)
		if an4.hasError {
			errors.VerifTag("diag", an4.describe())
		}
		errors.VerifAssert("well-typed-program-accepted", !an4.hasError)
		if an4.hasError {
			return
		}
		for _, f := range an4.modules[verifFile].Functions {
			if f.Ident.Ident() != "main" {
				continue
			}
			stmts := f.Body.Statements
			if inLoop {
				loop, ok := stmts[0].(ast.AnalyzedLoopStatement)
				if !ok {
					errors.VerifAssert("loop-statement-recorded", false)
					return
				}
				stmts = loop.Body.Statements
			}
			es, ok := stmts[0].(ast.AnalyzedExpressionStatement)
			if !ok {
				errors.VerifAssert("expression-statement-recorded", false)
				return
			}
			errors.VerifReached("typed")
			errors.VerifAssert("recorded-expression-type", es.Expression.Type().Kind() == ast.NullTypeKind)
		}
		return
	}
	var code string
	switch ctx {
	case 0: // annotated let
		code = vrMain(wrap("  let a: " + vrTypes[t1] + " = " + expr + ";\n  println(a);\n"))
	case 1: // unannotated let, then assigned a value of type T1
		code = vrMain(wrap("  let a = " + expr + ";\n  a = " + vrLits[t1] + ";\n  println(a);\n"))
	case 2: // call argument
		code = "fn g(p: " + vrTypes[t1] + ") { println(p); }\n" + vrMain(wrap("  g("+expr+");\n"))
	case 3: // trailing expression of a function (exits that need a loop or return null do not apply)
		if inLoop || exit == 0 {
			errors.VerifReached("not-applicable")
			return
		}
		code = "fn f() -> " + vrTypes[t1] + " {\n  " + expr + "\n}\n" + vrMain("  println(f());\n")
	}
	verifDebug("program", code)
	var an verifAnalysis
	panicked, pmsg := errors.VerifPanics(func() { an = verifAnalyze(code, nil, nil, true) })
	if panicked {
		vrAnalyzerPanicked(pmsg)
		return
	}
	errors.VerifReached("analyzed")
	vrSpansHook(an, code)
	if t1 != t2 {
		errors.VerifAssert("ill-typed-program-rejected", an.hasError)
		return
	}
	if an.hasError {
		errors.VerifTag("diag", an.describe())
	}
	errors.VerifAssert("well-typed-program-accepted", !an.hasError)
	if an.hasError || ctx > 1 {
		return
	}
	for _, f := range an.modules[verifFile].Functions {
		if f.Ident.Ident() != "main" {
			continue
		}
		stmts := f.Body.Statements
		if inLoop {
			loop, ok := stmts[0].(ast.AnalyzedLoopStatement)
			if !ok {
				errors.VerifAssert("loop-statement-recorded", false)
				return
			}
			stmts = loop.Body.Statements
		}
		let, ok := stmts[0].(ast.AnalyzedLetStatement)
		if !ok {
			errors.VerifAssert("let-statement-recorded", false)
			return
		}
		errors.VerifReached("typed")
		errors.VerifAssert("recorded-expression-type", let.Expression.Type().String() == vrTypes[t2])
		errors.VerifAssert("recorded-variable-type", let.VarType.String() == vrTypes[t2])
	}
}

// VerifHarness_AssignRules: `let v = L; v op= R;` is accepted exactly when `L op R` is admitted and yields the
// operand type again (the compound assignment and the infix rule tables must agree), for same-typed operands;
// operands of different types are rejected.
func VerifHarness_AssignRules() {
	t1 := errors.VerifNdIntRange("t1", 0, vrScalarTypes-1)
	t2 := errors.VerifNdIntRange("t2", 0, vrScalarTypes-1)
	ops := []string{"+", "-", "*", "/", "%", "**", "<<", ">>", "|", "&", "^"}
	op := ops[errors.VerifNdIntRange("op", 0, len(ops)-1)]
	errors.VerifTag("stmt", vrTypes[t1]+" "+op+"= "+vrTypes[t2])
	code := vrMain("  let v = " + vrLits[t1] + ";\n  v " + op + "= " + vrLits[t2] + ";\n  println(v);\n")
	var an verifAnalysis
	panicked, pmsg := errors.VerifPanics(func() { an = verifAnalyze(code, nil, nil, true) })
	if panicked {
		vrAnalyzerPanicked(pmsg)
		return
	}
	errors.VerifReached("analyzed")
	vrSpansHook(an, code)
	if t1 != t2 {
		errors.VerifAssert("mixed-operand-types-rejected", an.hasError)
		return
	}
	admitted, known, result := vrOpRule(op, t1)
	if !known {
		return
	}
	if !admitted || result != t1 {
		errors.VerifAssert("inadmissible-compound-assignment-rejected", an.hasError)
		return
	}
	if an.hasError {
		errors.VerifTag("diag", an.describe())
	}
	errors.VerifAssert("admissible-compound-assignment-accepted", !an.hasError)
	errors.VerifReached("accepted")
}

// vrAnalyzerPanicked: a crash of the analyzer is C05's subject. The rule harnesses are also registered under C05
// (param totality=1), where the crash is the violation; under C03 the path is only counted.
func vrAnalyzerPanicked(msg string) {
	if errors.VerifParam("totality", 0) == 1 {
		errors.VerifTag("panic", errors.VerifNorm(msg))
		errors.VerifTag("site", errors.VerifPanicSite())
		errors.VerifAssert("analysis-never-panics", false)
	}
	errors.VerifReached("analyzer-panicked")
}

// vrSpansHook: under C08 (param spans=1) the positions of all diagnostics of the rule programs are checked.
func vrSpansHook(an verifAnalysis, code string) {
	if errors.VerifParam("spans", 0) == 1 {
		verifCheckReportedSpans(an, code)
	}
}

// ---- which loop a `break` leaves ----

// VerifHarness_LoopTyping: a `loop` without a `break` of its own never completes (type never), so a function whose body
// ends in it needs no result value; a `loop` with a `break` of its own can complete and yields null, so
// `fn f(c: bool) -> int { loop { ... } }` is ill-typed. A `break` belongs to the innermost loop around it: a break inside
// a nested for/while/loop is no exit of the outer loop, and a nested loop does not hide a break of the outer one
// that stands before or behind it.
var vrLoopItems = []string{"", "if c { break; }", "if c { return 1; }", "if c { continue; }", "println(0);"}
var vrInnerLoops = []string{"", "for i in 0..2 { %B }", "while c { %B }", "loop { %B }", "for x in [1, 2] { for y in [3] { %B } }"}
var vrInnerBodies = []string{"println(1);", "if c { break; }", "if c { continue; }", "break;"}

func VerifHarness_LoopTyping() {
	before := errors.VerifNdIntRange("before", 0, len(vrLoopItems)-1)
	inner := errors.VerifNdIntRange("inner", 0, len(vrInnerLoops)-1)
	body := errors.VerifNdIntRange("body", 0, len(vrInnerBodies)-1)
	after := errors.VerifNdIntRange("after", 0, len(vrLoopItems)-1)
	outer := errors.VerifNdIntRange("outer", 0, 1) // 0: the loop is the function's body; 1: the loop is nested in a block expression
	if inner == 0 && body != 0 {
		errors.VerifReached("not-applicable")
		return
	}
	innerTxt := vrSubst(vrInnerLoops[inner], "", vrInnerBodies[body])
	innerNever := inner == 3 && (body == 0 || body == 2) // an inner `loop` without break: the rest of the outer body is unreachable
	if innerNever && after != 0 {
		errors.VerifReached("not-applicable") // whether an unreachable break still counts is not prescribed
		return
	}
	loopTxt := "loop {\n    " + vrLoopItems[before] + "\n    " + innerTxt + "\n    " + vrLoopItems[after] + "\n  }"
	code := "fn f(c: bool) -> int {\n  " + loopTxt + "\n}\nfn main() {\n  println(f(true));\n}\n"
	if outer == 1 {
		code = "fn f(c: bool) -> int {\n  {\n  " + loopTxt + "\n  }\n}\nfn main() {\n  println(f(true));\n}\n"
	}
	ownBreak := before == 1 || after == 1
	errors.VerifTag("case", fmt.Sprintf("before=%q inner=%q after=%q nested-in-block=%v", vrLoopItems[before], innerTxt, vrLoopItems[after], outer == 1))
	verifDebug("program", code)
	var an verifAnalysis
	panicked, pmsg := errors.VerifPanics(func() { an = verifAnalyze(code, nil, nil, true) })
	if panicked {
		vrAnalyzerPanicked(pmsg)
		return
	}
	errors.VerifReached("analyzed")
	vrSpansHook(an, code)
	if an.hasError {
		errors.VerifTag("diag", an.describe())
	}
	if ownBreak {
		errors.VerifAssert("loop-with-own-break-yields-null:ill-typed-program-rejected", an.hasError)
	} else {
		errors.VerifAssert("loop-without-own-break-never-completes:well-typed-program-accepted", !an.hasError)
	}
}

// ---- function values meeting each other ----

// VerifHarness_FnValueRules: two function values flow into one place (branches of an if / match, elements of a list,
// a later assignment, a parameter). The program is well-typed iff their function types agree: the host's variadic
// printers with each other, fixed-arity functions with equal parameter lists and results.
var vrFnValues = []struct {
	expr  string
	class int // functions of one class have the same type
}{
	{"print", 0},
	{"println", 0},
	{"inc", 1},
	{"dec", 1},
	{"fn(n: int) -> int { n * 2 }", 1},
	{"len_of", 2},
	{"two", 3},
	{"fn(n: int) -> str { \"s\" }", 4},
}
var vrFnPlaces = []string{
	"let f = if c { %A } else { %B };",
	"let f = match c { true => %A, _ => %B };",
	"let l = [%A, %B];\n  let f = l[0];",
	"let f = %A;\n  f = %B;",
	"let f = { if c { %A } else { %B } };",
	"let f = pick(%A, %B);",
}

func VerifHarness_FnValueRules() {
	a := errors.VerifNdIntRange("a", 0, len(vrFnValues)-1)
	b := errors.VerifNdIntRange("b", 0, len(vrFnValues)-1)
	pl := errors.VerifNdIntRange("place", 0, len(vrFnPlaces)-1)
	if pl == 5 && (vrFnValues[a].class != 1 || a > 3) {
		errors.VerifReached("not-applicable") // pick() takes fn(n: int) -> int as its first parameter
		return
	}
	stmt := ""
	f := vrFnPlaces[pl]
	for i := 0; i < len(f); i++ {
		if f[i] == '%' && i+1 < len(f) {
			if f[i+1] == 'A' {
				stmt += vrFnValues[a].expr
			} else {
				stmt += vrFnValues[b].expr
			}
			i++
			continue
		}
		stmt += string(f[i])
	}
	errors.VerifTag("case", fmt.Sprintf("%s with A=%s B=%s", vrFnPlaces[pl], vrFnValues[a].expr, vrFnValues[b].expr))
	code := "fn inc(n: int) -> int { n + 1 }\nfn dec(n: int) -> int { n - 1 }\nfn len_of(s: str) -> int { s.len() }\nfn two(n: int, m: int) -> int { n + m }\n" +
		"fn pick(x: fn(n: int) -> int, y: fn(n: int) -> int) -> fn(n: int) -> int { x }\n" +
		"fn main() {\n  let c = true;\n  " + stmt + "\n  println(c);\n}\n"
	verifDebug("program", code)
	var an verifAnalysis
	panicked, pmsg := errors.VerifPanics(func() { an = verifAnalyze(code, nil, nil, true) })
	if panicked {
		vrAnalyzerPanicked(pmsg)
		return
	}
	errors.VerifReached("analyzed")
	vrSpansHook(an, code)
	if an.hasError {
		errors.VerifTag("diag", an.describe())
	}
	if vrFnValues[a].class != vrFnValues[b].class {
		errors.VerifAssert("ill-typed-program-rejected", an.hasError)
	} else if pl != 2 && pl != 3 {
		// reading a function out of a list and re-assigning a function variable need a run-time check, which the
		// language refuses for function values: only totality is claimed for those two places
		errors.VerifAssert("well-typed-program-accepted", !an.hasError)
	}
}
