package homescript

import (
	"fmt"

	"github.com/smarthome-go/homescript/v3/homescript/diagnostic"
	"github.com/smarthome-go/homescript/v3/homescript/errors"
)

// C15: module-graph family served by the harness host. Selectors: visibility
// of each item, which items are imported, missing item / module, import cycle,
// overlapping private names. Oracle: diagnostic <=> a linking rule is broken;
// accepted graphs print values that identify whose body ran against whose globals.

func VerifHarness_Modules() {
	pinned := errors.VerifParam("pinned", 0) == 1 // one representative valid graph (used with map-order exploration)
	nd := func(name string) bool {
		if pinned {
			return name != "impV"
		}
		return errors.VerifNdIntRange(name, 0, 1) == 1
	}
	pubF, pubV, pubT := nd("pubF"), nd("pubV"), nd("pubT")
	impF, impV, impT := nd("impF"), nd("impV"), nd("impT")
	faultMax := 4
	if pinned {
		faultMax = 0
	}
	fault := errors.VerifNdIntRange("fault", 0, faultMax) // 0 none, 1 missing item, 2 missing module, 3 two-cycle, 4 three-cycle
	useM2 := nd("useM2")
	errors.VerifTag("__graph", fmt.Sprintf("pubF=%v pubV=%v pubT=%v impF=%v impV=%v impT=%v fault=%d m2=%v", pubF, pubV, pubT, impF, impV, impT, fault, useM2))

	vis := func(p bool) string {
		if p {
			return "pub "
		}
		return ""
	}
	m1 := vis(pubV) + "let v = 10;\n" + vis(pubT) + "type T = int;\n" +
		"fn k() -> int { return 100; }\n" +
		vis(pubF) + "fn f() -> int { return v + k(); }\n" +
		"pub fn bump() -> int { v += 1; return v; }\nfn main() { }\n"
	if fault == 3 {
		m1 = "import mk from main;\n" + m1
	}
	if fault == 4 {
		m1 = "import h from m2;\n" + m1
	}
	m2 := "let v = 20;\nfn k() -> int { return 200; }\npub fn h() -> int { return v + k(); }\nfn main() { }\n"
	if pinned {
		// no same-named globals (that collision is a separate, recorded finding): only visiting orders vary here
		m2 = "let w = 20;\nfn k() -> int { return 200; }\npub fn h() -> int { return w + k(); }\nfn main() { }\n"
	}
	if fault == 4 {
		m2 = "import mk from main;\n" + m2
	}
	imports := "import bump from m1;\n"
	if impF {
		imports += "import f from m1;\n"
	}
	if impV {
		imports += "import v from m1;\n"
	}
	if impT {
		imports += "import type T from m1;\n"
	}
	if useM2 {
		imports += "import h from m2;\n"
	}
	if fault == 1 {
		imports += "import nothere from m1;\n"
	}
	if fault == 2 {
		imports += "import x from nomodule;\n"
	}
	body := "  println(k());\n"
	if !impV {
		body = "  let v = 1;\n  println(k(), v);\n"
	}
	if impF {
		body += "  println(f());\n"
	}
	if impV {
		body += "  println(v);\n"
	}
	if impT {
		body += "  let t: T = 5;\n  println(t);\n"
	}
	if useM2 {
		body += "  println(h());\n"
	}
	body += "  println(bump(), bump());\n"
	if impF {
		body += "  println(f());\n"
	}
	main := imports + "fn k() -> int { return 1; }\npub fn mk() -> int { return 1; }\nfn main() {\n" + body + "}\n"
	modules := map[string]string{"m1": m1, "m2": m2, "main": main}

	wantErr := (impF && !pubF) || (impV && !pubV) || (impT && !pubT) || fault != 0
	var an verifAnalysis
	panicked, msg := errors.VerifPanics(func() { an = verifAnalyze(main, modules, nil, true) })
	if panicked {
		errors.VerifTag("panic", errors.VerifNorm(msg))
		errors.VerifTag("site", errors.VerifPanicSite())
		errors.VerifAssert("module-analysis-never-crashes", false)
		return
	}
	errors.VerifReached("analyzed")
	if wantErr {
		errors.VerifAssert("broken-import-rule-is-diagnosed", an.hasError)
		return
	}
	if an.hasError {
		errors.VerifTag("diag", an.describe())
	}
	errors.VerifAssert("valid-module-graph-accepted", !an.hasError)
	if an.hasError {
		return
	}
	// expected output: an imported function runs ITS body against ITS module's globals
	want := "1\n"
	if !impV {
		want = "1 1\n"
	}
	if impF {
		want += "110\n"
	}
	if impV {
		want += "10\n"
	}
	if impT {
		want += "5\n"
	}
	if useM2 {
		want += "220\n"
	}
	want += "11 12\n"
	if impF {
		want += "112\n"
	}
	for backend := 0; backend < 2; backend++ {
		var o verifOutcome
		name := []string{"vm", "tree"}[backend]
		p, m := errors.VerifPanics(func() {
			if backend == 0 {
				o = verifRunVM(an, modules, nil, verifLimits, newVerifCtx())
			} else {
				o = verifRunTree(an, modules, nil, 100, newVerifCtx())
			}
		})
		if p {
			errors.VerifTag("panic", errors.VerifNorm(m))
			errors.VerifAssert(name+"-linked-program-never-crashes", false)
			errors.VerifUntag("panic")
			continue
		}
		errors.VerifReached("ran")
		errors.VerifAssert(name+"-run-completes", o.class == "ok")
		if o.class == "ok" {
			// class of the graph: do two imported modules define a global of the same name?
			errors.VerifTag("same-named-globals-in-two-imported-modules", fmt.Sprint(useM2 && !pinned))
			errors.VerifAssert(name+"-imported-function-runs-its-own-body-against-its-own-globals", o.out == want)
			errors.VerifUntag("same-named-globals-in-two-imported-modules")
		}
	}
}

// VerifHarness_ModuleChains: graphs of depth two and more. Scenarios (selector):
//
//	0 re-export: a defines pub items, b imports them without declaring anything pub, main imports them from b
//	  (broken: b does not export them) or from a directly (legal)
//	1 a cycle that does not contain the entry module (main -> a -> b -> a), and a module importing itself
//	2 diamond (main -> a, b; a -> c; b -> c): c's global is initialised once and shared by both paths
//	3 chain with the same private names at every level: each function runs against its own module
func VerifHarness_ModuleChains() {
	sc := errors.VerifParam("only", -1) // a pinned scenario (used with map-order exploration)
	if sc < 0 {
		sc = errors.VerifNdIntRange("scenario", 0, 6)
	}
	errors.VerifTag("scenario", []string{"re-export", "inner-cycle", "diamond", "private-names", "same-named-function-elsewhere", "underscores-in-module-and-function-names", "module-function-named-like-a-host-function"}[sc])
	var modules map[string]string
	var main, want string
	wantErr := false
	switch sc {
	case 0:
		item := errors.VerifNdIntRange("item", 0, 2)   // function, global, type
		form := errors.VerifNdIntRange("form", 0, 1)   // single import, list import
		via := errors.VerifNdIntRange("via", 0, 1)     // 0: from b (re-export), 1: from a (direct)
		bUses := errors.VerifNdIntRange("bUses", 0, 1) // whether b also imports the item (so it is in b's scope)
		errors.VerifTag("case", fmt.Sprintf("item=%d form=%d via=%d bUses=%d", item, form, via, bUses))
		a := "pub fn shared() -> int { return 7; }\npub let LIMIT = 9;\npub type Id = int;\nfn main() { }\n"
		b := "pub fn own() -> int { return 3; }\nfn main() { }\n"
		if bUses == 1 {
			b = "import { shared, LIMIT, type Id } from a;\npub fn own() -> int { let q: Id = LIMIT; return shared() + q - 13; }\nfn main() { }\n"
		}
		names := []string{"shared", "LIMIT", "type Id"}
		src := []string{"b", "a"}[via]
		imp := "import " + names[item] + " from " + src + ";\n"
		if form == 1 {
			if via == 0 {
				imp = "import { own, " + names[item] + " } from b;\n"
			} else {
				imp = "import { " + names[item] + " } from a;\n"
			}
		}
		if !(form == 1 && via == 0) {
			imp += "import own from b;\n"
		}
		use := []string{"  println(shared());\n", "  println(LIMIT);\n", "  let i: Id = 4;\n  println(i);\n"}[item]
		main = imp + "fn main() {\n  println(own());\n" + use + "}\n"
		modules = map[string]string{"a": a, "b": b, "main": main}
		wantErr = via == 0
		want = "3\n" + []string{"7\n", "9\n", "4\n"}[item]
	case 1:
		kind := errors.VerifNdIntRange("kind", 0, 1)
		errors.VerifTag("case", fmt.Sprint("kind=", kind))
		if kind == 0 {
			a := "import g from b;\npub fn f() -> int { return g(); }\nfn main() { }\n"
			b := "import f from a;\npub fn g() -> int { return 1; }\nfn main() { }\n"
			main = "import f from a;\nfn main() {\n  println(f());\n}\n"
			modules = map[string]string{"a": a, "b": b, "main": main}
		} else {
			main = "import mk from main;\npub fn mk() -> int { return 1; }\nfn main() {\n  println(mk());\n}\n"
			modules = map[string]string{"main": main}
		}
		wantErr = true
	case 2:
		c := "pub let cnt = 0;\npub fn inc() -> int { cnt += 1; return cnt; }\nfn main() { }\n"
		a := "import inc from c;\npub fn fa() -> int { return inc(); }\nfn main() { }\n"
		b := "import inc from c;\npub fn fb() -> int { return inc() * 10; }\nfn main() { }\n"
		main = "import fa from a;\nimport fb from b;\nimport inc from c;\nfn main() {\n  println(fa(), fb(), inc(), fa());\n}\n"
		modules = map[string]string{"a": a, "b": b, "c": c, "main": main}
		want = "1 20 3 4\n"
	case 3:
		c := "let v = 300;\nfn k() -> int { return v + 3; }\npub fn fc() -> int { return k(); }\nfn main() { }\n"
		a := "import fc from c;\nlet u = 200;\nfn k() -> int { return u + 2; }\npub fn fa() -> int { return k() * 1000 + fc(); }\nfn main() { }\n"
		main = "import fa from a;\nlet t = 100;\nfn k() -> int { return t + 1; }\nfn main() {\n  println(k(), fa());\n}\n"
		modules = map[string]string{"a": a, "c": c, "main": main}
		want = "101 202303\n"
	case 5:
		// module `a_b` with function `get` and module `a` with function `b_get`: different functions and globals
		ab := "let v = 1;\npub fn get() -> int { return v; }\nfn main() { }\n"
		a := "let b_v = 2;\npub fn b_get() -> int { return b_v; }\nfn main() { }\n"
		main = "import get from a_b;\nimport b_get from a;\nfn main() {\n  println(get(), b_get());\n}\n"
		modules = map[string]string{"a_b": ab, "a": a, "main": main}
		want = "1 2\n"
	case 6:
		// another module defines a function named like a function of the host's scope: the entry module's call still reaches the host's
		priv := errors.VerifNdIntRange("otherIsPub", 0, 1)
		errors.VerifTag("case", fmt.Sprint("otherIsPub=", priv))
		b := []string{"", "pub "}[priv] + "fn println(n: int) -> int { return n * 100; }\npub fn g() -> int { return 2; }\nfn main() { }\n"
		main = "import g from b;\nfn main() {\n  println(7);\n  println(g());\n}\n"
		modules = map[string]string{"b": b, "main": main}
		want = "7\n2\n"
	case 4:
		// main imports f from a; b (imported for g only) defines its own, unrelated f
		form, bf := 0, 1
		if errors.VerifParam("narrow", 0) == 0 { // (the map-order exploration pins these two)
			form = errors.VerifNdIntRange("importForm", 0, 2) // single import, first of a list, second of a list
			bf = errors.VerifNdIntRange("otherIsPub", 0, 1)    // whether b's unrelated f is pub or private
		}
		order := errors.VerifNdIntRange("otherImportedFirst", 0, 1) // whether the import from b stands before the imports from a
		errors.VerifTag("case", fmt.Sprintf("form=%d otherIsPub=%d otherImportedFirst=%d", form, bf, order))
		a := "pub fn e() -> int { return 5; }\npub fn f() -> int { return 1; }\nfn main() { }\n"
		b := []string{"", "pub "}[bf] + "fn f() -> int { return 2; }\npub fn g() -> int { return f() * 10; }\nfn main() { }\n"
		imp := []string{"import f from a;\nimport e from a;\n", "import { f, e } from a;\n", "import { e, f } from a;\n"}[form]
		if order == 1 {
			imp = "import g from b;\n" + imp
		} else {
			imp += "import g from b;\n"
		}
		main = imp + "fn main() {\n  let h = f;\n  println(f(), g(), e(), h());\n}\n"
		modules = map[string]string{"a": a, "b": b, "main": main}
		want = "1 20 5 1\n"
	}
	var an verifAnalysis
	panicked, msg := errors.VerifPanics(func() { an = verifAnalyze(main, modules, nil, true) })
	if panicked {
		errors.VerifTag("panic", errors.VerifNorm(msg))
		errors.VerifTag("site", errors.VerifPanicSite())
		errors.VerifAssert("module-analysis-never-crashes", false)
		return
	}
	errors.VerifReached("analyzed")
	if wantErr {
		errors.VerifAssert("broken-import-rule-is-diagnosed", an.hasError)
		return
	}
	if an.hasError {
		errors.VerifTag("diag", an.describe())
	}
	errors.VerifAssert("valid-module-graph-accepted", !an.hasError)
	if an.hasError {
		return
	}
	for backend := 0; backend < 2; backend++ {
		var o verifOutcome
		name := []string{"vm", "tree"}[backend]
		p, m := errors.VerifPanics(func() {
			if backend == 0 {
				o = verifRunVM(an, modules, nil, verifLimits, newVerifCtx())
			} else {
				o = verifRunTree(an, modules, nil, 100, newVerifCtx())
			}
		})
		if p {
			errors.VerifTag("panic", errors.VerifNorm(m))
			errors.VerifAssert(name+"-linked-program-never-crashes", false)
			errors.VerifUntag("panic")
			continue
		}
		errors.VerifReached("ran")
		errors.VerifAssert(name+"-run-completes", o.class == "ok")
		if o.class == "ok" {
			errors.VerifTag("got", errors.VerifNorm(o.out))
			errors.VerifAssert(name+"-modules-linked-and-initialised-once", o.out == want)
			errors.VerifUntag("got")
		}
	}
}

// ---- import graphs with defective modules (C05) ----

// Module texts the host may serve: sound ones and defective ones of every class.
var verifModuleTexts = []struct {
	what   string
	text   string
	syntax bool // the text has a syntax error, which must be reported with a position inside this module
}{
	{"sound", "pub fn item() -> int { return 1; }\nfn main() { }\n", false},
	{"sound-without-the-item", "pub fn other() -> int { return 1; }\nfn main() { }\n", false},
	{"truncated", "pub fn item() -> int { return 1", true},
	{"stray-token", "pub fn item() -> int { return 1; }\n) fn main() { }\n", true},
	{"unclosed-string", "pub fn item() -> int { println(\"abc); return 1; }\nfn main() { }\n", true},
	{"illegal-character", "pub fn item() -> int { return 1 ` 2; }\nfn main() { }\n", true},
	{"missing-semicolon", "pub fn item() -> int { let a = 1 return a; }\nfn main() { }\n", true},
	{"ill-typed", "pub fn item() -> int {\n  let a = 1;\n\n\n\n  let x: str = a / 2;\n  return a;\n}\nfn main() { }\n", false},
	{"empty", "", false},
}

// VerifHarness_ImportGraphs: the entry module imports through one of five graph shapes; one module of the graph
// (selector) carries one of the texts above, the others are sound. Analyze must return (no panic, no hang), and a
// syntax error inside a module must come back as a syntax error whose position names that module.
func VerifHarness_ImportGraphs() {
	shape := errors.VerifNdIntRange("shape", 0, 5)
	text := errors.VerifNdIntRange("text", 0, len(verifModuleTexts)-1)
	errors.VerifTag("shape", []string{"defective-then-sound", "sound-then-defective", "behind-a-library", "library-imports-defective-then-sound", "diamond-bottom", "imported-twice"}[shape])
	errors.VerifTag("text", verifModuleTexts[text].what)
	bad := verifModuleTexts[text].text
	good := "pub fn fine() -> int { return 2; }\nfn main() { }\n"
	var modules map[string]string
	var main string
	switch shape {
	case 0:
		main = "import item from broken;\nimport fine from good;\nfn main() {\n  println(item() + fine());\n}\n"
		modules = map[string]string{"broken": bad, "good": good}
	case 1:
		main = "import fine from good;\nimport item from broken;\nfn main() {\n  println(item() + fine());\n}\n"
		modules = map[string]string{"broken": bad, "good": good}
	case 2:
		main = "import viaLib from lib;\nfn main() {\n  println(viaLib());\n}\n"
		modules = map[string]string{"broken": bad, "lib": "import item from broken;\npub fn viaLib() -> int { return item(); }\nfn main() { }\n"}
	case 3:
		main = "import viaLib from lib;\nimport fine from good;\nfn main() {\n  println(viaLib() + fine());\n}\n"
		modules = map[string]string{"broken": bad, "good": good, "lib": "import item from broken;\nimport fine from good;\npub fn viaLib() -> int { return item() + fine(); }\nfn main() { }\n"}
	case 4:
		main = "import fa from a;\nimport fb from b;\nfn main() {\n  println(fa() + fb());\n}\n"
		modules = map[string]string{"broken": bad,
			"a": "import item from broken;\npub fn fa() -> int { return item(); }\nfn main() { }\n",
			"b": "import item from broken;\npub fn fb() -> int { return item(); }\nfn main() { }\n"}
	case 5:
		main = "import item from broken;\nimport { item } from broken;\nimport fine from good;\nfn main() {\n  println(item() + fine());\n}\n"
		modules = map[string]string{"broken": bad, "good": good}
	}
	modules["main"] = main
	verifDebug("program", main)
	var an verifAnalysis
	panicked, pmsg := errors.VerifPanics(func() { an = verifAnalyze(main, modules, nil, true) })
	if panicked {
		errors.VerifTag("panic", errors.VerifNorm(pmsg))
		errors.VerifTag("site", errors.VerifPanicSite())
	}
	errors.VerifAssert("analysis-never-panics", !panicked)
	if panicked {
		return
	}
	errors.VerifReached("analyzed")
	if verifModuleTexts[text].syntax {
		named := false
		for _, e := range an.syntax {
			if e.Span.Filename == "broken" {
				named = true
			}
		}
		errors.VerifAssert("syntax-error-of-a-module-is-returned-with-a-position-in-that-module", named)
	}
	if text == 0 && shape != 5 {
		if an.hasError {
			errors.VerifTag("diag", an.describe())
		}
		errors.VerifAssert("sound-graph-accepted", !an.hasError)
	}
	if text == 7 || text == 1 || text == 8 {
		errors.VerifAssert("defective-module-rejected", an.hasError)
	}
	if text == 7 {
		// the type error sits inside the module (line 6 of its text): the diagnostic names that module and that line
		named := false
		for _, d := range an.diags {
			if d.Level == diagnostic.DiagnosticLevelError && d.Span.Filename == "broken" && d.Span.Start.Line == 6 {
				named = true
			}
		}
		errors.VerifAssert("diagnostic-inside-a-module-names-that-module-and-line", named)
	}
	if errors.VerifParam("spans", 0) == 1 {
		verifCheckReportedSpansIn(an, modules)
	}
}

// ---- import kinds against what a code module offers ----

// VerifHarness_ImportKinds: the entry imports one item of each kind (function, global, type, trigger, template) from a
// code module that offers it publicly, privately, not at all, or only holds it as its own import from the host; the
// item is then used the way its kind is used. Analyze must return; an item the module does not offer publicly is
// diagnosed.
func VerifHarness_ImportKinds() {
	kind := errors.VerifNdIntRange("kind", 0, 4)   // fn, global, type, trigger, templ
	offer := errors.VerifNdIntRange("offer", 0, 3) // pub, private, absent, held as the module's own import
	form := errors.VerifNdIntRange("form", 0, 1)   // single import, braced list
	use := errors.VerifNdIntRange("use", 0, 2)     // imported only / used / the entry also defines an item of that name itself
	kinds := []string{"function", "global", "type", "trigger", "template"}
	errors.VerifTag("case", fmt.Sprintf("%s offer=%s braced=%v use=%d", kinds[kind], []string{"pub", "private", "absent", "own-import"}[offer], form == 1, use))
	lib := "fn main() { }\n"
	pub := []string{"pub ", "", "", ""}[offer]
	switch {
	case offer == 2:
	case offer == 3:
		lib = []string{
			"import item from deep;\n",
			"import item from deep;\n",
			"import type item from deep;\n",
			"import trigger minute from triggers;\n",
			"import templ FooFeature from templates;\n",
		}[kind] + lib
	case kind == 0:
		lib = pub + "fn item() -> int { 1 }\n" + lib
	case kind == 1:
		lib = pub + "let item = 1;\n" + lib
	case kind == 2:
		lib = pub + "type item = int;\n" + lib
	default:
		// a code module cannot declare triggers or templates of its own
		errors.VerifReached("not-applicable")
		return
	}
	deep := "pub fn item() -> int { 1 }\npub type item = int;\nfn main() { }\n"
	if kind == 1 {
		deep = "pub let item = 1;\nfn main() { }\n"
	}
	word := []string{"item", "item", "type item", "trigger minute", "templ FooFeature"}[kind]
	imp := "import " + word + " from lib;\n"
	if form == 1 {
		imp = "import { " + word + " } from lib;\n"
	}
	body := "  println(1);\n"
	extra := ""
	if use == 1 {
		switch kind {
		case 0:
			body = "  println(item());\n"
		case 1:
			body = "  println(item);\n"
		case 2:
			body = "  let v: item = 1;\n  println(v);\n"
		case 3:
			extra = "event fn cb(elapsed: int) { println(elapsed); }\n"
			body = "  trigger cb at minute(1);\n"
		case 4:
			extra = "$Dev = { b: int };\nimpl FooFeature with { light } for $Dev {\n  fn dim(self: $Dev, percent: int) -> bool { true }\n}\n"
		}
	}
	if use == 2 {
		// a definition of the entry module with the name of the import: a duplicate definition
		if kind > 2 || offer != 0 {
			errors.VerifReached("not-applicable")
			return
		}
		extra = []string{"fn item() -> int { 5 }\n", "let item = 5;\n", "type item = str;\n"}[kind]
	}
	main := imp + extra + "fn main() {\n" + body + "}\n"
	modules := map[string]string{"lib": lib, "deep": deep, "main": main}
	verifDebug("program", main)
	var an verifAnalysis
	panicked, pmsg := errors.VerifPanics(func() { an = verifAnalyze(main, modules, nil, true) })
	if panicked {
		errors.VerifTag("panic", errors.VerifNorm(pmsg))
		errors.VerifTag("site", errors.VerifPanicSite())
	}
	errors.VerifAssert("analysis-never-panics", !panicked)
	if panicked {
		return
	}
	errors.VerifReached("analyzed")
	if an.hasError {
		errors.VerifTag("diag", an.describe())
	}
	if offer == 0 && use != 2 {
		errors.VerifAssert("public-item-imported", !an.hasError)
	}
	if use == 2 {
		errors.VerifAssert("definition-with-the-name-of-an-import-is-diagnosed", an.hasError)
	}
	if offer == 1 || offer == 2 {
		errors.VerifAssert("item-not-offered-is-diagnosed", an.hasError)
	}
	if errors.VerifParam("spans", 0) == 1 {
		verifCheckReportedSpansIn(an, modules)
	}
}
