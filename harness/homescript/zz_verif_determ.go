package homescript

import (
	"fmt"
	"sort"

	"github.com/smarthome-go/homescript/v3/homescript/errors"
)

// C14: map-order nondeterminism mode. Every Go `range` over a map inside the
// repository's packages may take any order (a fork variable, bounded number
// of deviating ranges per path); the observable result of analyse + compile +
// run must be the same on every explored order.

type verifDetermProg struct {
	name    string
	code    string
	modules map[string]string
}

var verifDetermProgs = []verifDetermProg{
	{"object-display", "fn main() {\n  let o = new { a: 1, b: 2, c: 3 };\n  println(o);\n  println([o, o]);\n  println(o == new { a: 1, b: 2, c: 3 });\n}\n", nil},
	{"anyobject", "fn main() {\n  let o = new { x: 1, y: 2 } as { ? };\n  println(o.keys());\n  println(o.to_json());\n  println(o);\n}\n", nil},
	{"warnings", "fn u1() {}\nfn u2() {}\nfn main() {\n  let x = 1;\n  let y = 2;\n  let z = 3;\n  println(1);\n}\n", nil},
	{"modules", "import { f, g } from m1;\nimport h from m2;\nfn k() -> int { return 4; }\nfn main() {\n  println(f(), g(), h(), k());\n}\n",
		map[string]string{"m1": "let v = 10;\npub fn f() -> int { return v + 1; }\npub fn g() -> int { return v + 2; }\nfn k() -> int { return 0; }\n", "m2": "let v = 20;\npub fn h() -> int { return v + 3; }\nfn k() -> int { return 0; }\n"}},
	{"locals", "fn a(p: int, q: int) -> int { let r = p + q; let s = r * 2; return s - p; }\nfn b(p: int) -> int { let t = a(p, 1); return t + a(2, p); }\nfn main() {\n  let l = [b(1), b(2), b(3)];\n  for x in l { println(x); }\n}\n", nil},
	{"singletons-impl", "import templ FooFeature from templates;\nimport trigger minute from triggers;\n$Device = { b: int, name: str, lit: bool };\n$Other = { c: float, d: int };\nimpl FooFeature with { light } for $Device {\n  fn dim(self: $Device, percent: int) -> bool { self.b = percent; true }\n}\nimpl FooFeature with { temperature } for $Other {\n  fn set_temp(self: $Other, celsius: float) { self.c = celsius; }\n}\nevent fn cb(elapsed: int) { println(elapsed); }\nfn main() {\n  println(dim(3), $Device, $Other);\n  set_temp(1.5);\n  trigger cb at minute(2);\n  println($Other.c, $Device.b);\n}\n", nil},
	{"several-errors", "import templ FooFeature from templates;\n$Dev = { b: int };\nimpl FooFeature with { light, temperature } for $Dev {\n  fn dim(self: $Dev, percent: int) -> bool { true }\n  fn set_temp(self: $Dev, celsius: float) { }\n}\nimport nothere from m1;\nfn a(p: int, p: int) {}\nfn a() {}\nlet g = 1;\nlet g = 2;\ntype T = int;\ntype T = str;\nfn main() {\n  let x: str = 1;\n  let y: int = \"s\";\n  undefined1();\n  undefined2();\n  break;\n}\n",
		map[string]string{"m1": "let v = 10;\npub fn f() -> int { return v; }\n"}},
	{"module-chain", "import fa from a;\nimport fb from b;\nfn main() {\n  println(fa(), fb());\n}\n",
		map[string]string{"a": "import inc from c;\npub fn fa() -> int { return inc(); }\n", "b": "import inc from c;\npub fn fb() -> int { return inc() * 10; }\npub fn fa() -> int { return 0; }\n", "c": "pub let cnt = 0;\npub fn inc() -> int { cnt += 1; return cnt; }\n"}},
	{"same-named-functions", "import { e, f } from a;\nimport g from b;\nfn main() {\n  let h = f;\n  println(f(), g(), e(), h());\n}\n",
		map[string]string{"a": "pub fn e() -> int { return 5; }\npub fn f() -> int { return 1; }\n", "b": "fn f() -> int { return 2; }\npub fn e() -> int { return 6; }\npub fn g() -> int { return f() * 10; }\n"}},
	{"loops-in-several-functions", "fn total(xs: [int]) -> int {\n  let s = 0;\n  for i in xs { s += i; }\n  s\n}\nfn report(limit: int) {\n  let banner = \"== report ==\";\n  let extra = limit * 2;\n  for i in 0..limit { extra += i; }\n  println(banner, \"limit\", limit, extra);\n}\nfn third() -> int {\n  let a = 1;\n  let b = 2;\n  let c = 3;\n  for i in 0..2 { c += i; }\n  for j in [a, b] { c += j; }\n  a + b + c\n}\nfn main() {\n  println(total([1, 2, 3]));\n  report(3);\n  println(third());\n  for i in 0..2 { println(i); }\n}\n", nil},
	{"function-values-in-modules", "import show from m1;\nimport show2 from m2;\nfn named(a: int) -> int { a }\nfn main() {\n  let f = fn() -> int { 1 };\n  println(f, named);\n  show();\n  show2();\n  println(f());\n}\n",
		map[string]string{"m1": "pub fn show() {\n  let g = fn() -> int { 2 };\n  println(g, g());\n}\n", "m2": "pub fn show2() {\n  let h = fn() -> int { 3 };\n  let k = fn() -> int { 4 };\n  println(h, k, h() + k());\n}\n"}},
	{"cast-error-message", "fn main() {\n  let o = new { inner: new { a: 1, b: 2, c: 3 } } as { ? };\n  try {\n    let t = o.get(\"inner\").unwrap() as { a: str, b: str, c: str };\n    println(t);\n  } catch e {\n    println(e.message);\n  }\n  try {\n    let u = o.get(\"inner\").unwrap() as { a: int, b: bool, c: float, d: int };\n    println(u);\n  } catch e {\n    println(e.message);\n  }\n}\n", nil},
	{"library-made-empty-options-are-written", "fn main() {\n  let slots = \"[null, 2]\".parse_json() as [?int];\n  println(slots[0], slots[0].is_none());\n  slots[0] = ?5;\n  println(slots[0], slots[1]);\n  let rec = \"{\\\"room\\\": null}\".parse_json() as { room: ?str };\n  println(rec.room);\n  rec.room = ?\"kitchen\";\n  println(rec.room);\n  let o = new { ? };\n  let m: ?int = o->missing;\n  println(m);\n  let l: [int] = [];\n  println(l.pop(), l.last());\n  let n: ?int = none;\n  println(n);\n}\n", nil},
	{"list-of-objects", "fn main() {\n  let l = [new { k: 1, v: \"a\" }, new { k: 2, v: \"b\" }];\n  for o in l { println(o.k, o.v); }\n  println(l);\n}\n", nil},
}

func verifObservable(code string, modules0 map[string]string) string {
	// every module needs a main function of its own
	var modules map[string]string
	if modules0 != nil {
		modules = map[string]string{}
		for name, src := range modules0 {
			modules[name] = src + "fn main() { }\n"
		}
	}
	an := verifAnalyze(code, modules, nil, true)
	var ds []string
	for _, d := range an.diags {
		ds = append(ds, fmt.Sprintf("%d|%s|%d:%d", d.Level, d.Message, d.Span.Start.Line, d.Span.Start.Column))
	}
	sort.Strings(ds) // the SET of diagnostics must be the same; their order is not part of the property
	res := ""
	for _, d := range ds {
		res += d + "\n"
	}
	if an.hasError {
		return res + "## rejected"
	}
	vm := verifRunVM(an, modules, nil, verifLimits, newVerifCtx())
	tr := verifRunTree(an, modules, nil, 100, newVerifCtx())
	return res + "## vm:" + vm.class + ":" + vm.out + "## tree:" + tr.class + ":" + tr.out
}

func VerifHarness_Determinism() {
	from, to := errors.VerifParam("from", 0), errors.VerifParam("to", len(verifDetermProgs)-1)
	if to > len(verifDetermProgs)-1 {
		to = len(verifDetermProgs) - 1
	}
	t := verifDetermProgs[errors.VerifNdIntRange("template", from, to)]
	errors.VerifTag("template", t.name)
	var first, second string
	panicked, msg := errors.VerifPanics(func() {
		first = verifObservable(t.code, t.modules)
		second = verifObservable(t.code, t.modules) // an earlier run in the same process must not matter
	})
	if panicked {
		errors.VerifTag("panic", errors.VerifNorm(msg))
		errors.VerifReached("panicked") // C02's subject
		return
	}
	errors.VerifReached("ran")
	if t.name != "several-errors" {
		// the programs are meant to be accepted: a rejected one would make this check vacuous
		errors.VerifAssert("determinism-corpus-program-is-accepted", !verifHasSuffix(first, "## rejected"))
	}
	errors.VerifAssert("an-earlier-run-in-the-same-process-does-not-matter", first == second)
	errors.VerifStable("same-diagnostics-output-and-outcome-on-every-run", first)
	errors.VerifStable("second-run-in-the-same-process", second)
}
