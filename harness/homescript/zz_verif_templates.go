package homescript

import (
	"github.com/smarthome-go/homescript/v3/homescript/errors"
)

// Template family: small programs from the validated catalogue (DESIGN
// appendix E). Every literal that matters is a host-provided global with an
// unconstrained value: A, B, C: int; X, Y: float; P, Q: bool.

type verifTemplate struct {
	name string
	code string
}

var verifTemplates = []verifTemplate{
	{"arith", "fn main() {\n  println(A + B * C, (A - B) / 3, A % 7, -A, !A);\n  println(A & B, A | B, A ^ B, A << 2, A >> 1);\n}\n"},
	{"cmp", "fn main() {\n  println(A < B, A <= B, A > B, A >= B, A == B, A != B);\n}\n"},
	{"float", "fn main() {\n  println(X + Y, X - Y, X * Y, -X);\n  println(X < Y, X == Y, X >= Y);\n}\n"},
	{"shortcircuit", "fn t(n: int) -> bool { println(\"t\", n); return true; }\nfn f(n: int) -> bool { println(\"f\", n); return false; }\nfn main() {\n  println(P && t(1));\n  println(P || f(2));\n  println(f(3) && t(4), t(5) || f(6));\n  println(f(7) & t(8), t(9) | f(10));\n}\n"},
	{"shadow", "fn main() {\n  let a = A;\n  {\n    let a = a + 1;\n    {\n      let a = a * 2;\n      println(a);\n    }\n    println(a);\n  }\n  println(a);\n}\n"},
	{"alias", "fn main() {\n  let l = [A, B];\n  let m = l;\n  m.push(C);\n  println(l.len(), l[2], m[0]);\n  let i = A;\n  let j = i;\n  j = j + 1;\n  println(i, j);\n  let o = new { k: A };\n  let p = o;\n  p.k = B;\n  println(o.k);\n}\n"},
	{"forsnap", "fn main() {\n  let l = [A, B];\n  for x in l {\n    l.push(x + 1);\n    println(x);\n  }\n  println(l.len());\n}\n"},
	{"ifval", "fn main() {\n  let v = if A > B { A } else { B };\n  println(v);\n  let w = if P { 1 } else { if Q { 2 } else { 3 } };\n  println(w);\n}\n"},
	{"matchval", "fn main() {\n  let v = match A {\n    0 => \"zero\",\n    1 | 2 => \"few\",\n    _ => \"many\",\n  };\n  println(v);\n  match P { true => println(\"yes\"), false => println(\"no\"), }\n}\n"},
	{"blockval", "fn main() {\n  let v = { let t = A + 1; t * 2 };\n  println(v);\n}\n"},
	{"tryval", "fn risky(n: int) -> int { if n > 3 { throw(\"too big\"); } return n * 2; }\nfn main() {\n  let v = try { risky(A) } catch e { println(e.message); 0 - 1 };\n  println(v);\n}\n"},
	{"argorder", "fn s(n: int) -> int { println(\"eval\", n); return n; }\nfn two(a: int, b: int) -> int { return a - b; }\nfn main() {\n  println(two(s(A), s(B)));\n  let l = [s(1), s(2), s(3)];\n  println(l.len());\n  println(s(4) + s(5) * s(6));\n}\n"},
	{"whileloop", "fn main() {\n  let i = 0;\n  let acc = 0;\n  while i < 4 {\n    i += 1;\n    if i == A { continue; }\n    if i == B { break; }\n    acc += i;\n  }\n  println(i, acc);\n}\n"},
	{"whileret", "fn find(limit: int) -> int {\n  let i = 0;\n  while i < 5 {\n    if i == limit { return i * 10; }\n    i += 1;\n  }\n  return 0 - 1;\n}\nfn main() {\n  println(find(A));\n  println(find(2));\n}\n"},
	{"recur", "fn fib(n: int) -> int { if n < 2 { return n; } return fib(n - 1) + fib(n - 2); }\nfn main() {\n  println(fib(6));\n  println(fib(3) + A);\n}\n"},
	{"closure", "fn main() {\n  let k = A;\n  let f = fn(a: int) -> int { a + k };\n  println(f(1));\n}\n"},
	{"member-read-is-a-copy", "fn main() {\n  let o = new { x: A, y: B };\n  let a = o.x;\n  o.x = 5;\n  println(a, o.x);\n  let b = o.y;\n  b += 1;\n  println(b, o.y);\n}\n"},
	{"index-read-is-a-copy", "fn main() {\n  let l = [A, B];\n  let a = l[0];\n  l[0] = 9;\n  println(a, l[0]);\n  let b = l[1];\n  b += 1;\n  println(b, l[1]);\n}\n"},
	{"argument-from-member-is-a-copy", "fn bump(n: int) -> int { n += 1; return n; }\nfn main() {\n  let o = new { x: A };\n  let l = [B];\n  println(bump(o.x), o.x, bump(l[0]), l[0]);\n}\n"},
	{"loop-variable-is-a-copy", "fn main() {\n  let l = [A, B];\n  for x in l {\n    x += 1;\n    println(x);\n  }\n  println(l[0], l[1]);\n}\n"},
	{"concat-shares-nothing", "fn main() {\n  let l1 = [A];\n  let l2 = [B];\n  l1.concat(l2);\n  l1[1] = 9;\n  println(l1.len(), l1[1], l2[0]);\n}\n"},
	{"for-over-objects-sees-the-objects", "fn main() {\n  let objs = [new { v: A }, new { v: B }];\n  for o in objs {\n    o.v = 9;\n  }\n  println(objs[0].v, objs[1].v);\n  let m = [[A], [B, C]];\n  for row in m {\n    row.push(0);\n  }\n  println(m[0].len(), m[1].len());\n}\n"},
	{"spawn-handle-join", "fn work(n: int) -> int { return n + 1; }\nfn main() {\n  let h = spawn work(A);\n  println(h.join());\n}\n"},
	{"lambda-nested", "fn main() {\n  let make = fn(n: int) -> int {\n    let inner = fn(x: int) -> int { x * 2 };\n    inner(n) + 1\n  };\n  println(make(A));\n  let third = fn(n: int) -> int { n - 3 };\n  println(third(B), make(B));\n}\n"},
	{"lambda-in-lambda-argument", "fn apply(f: fn(x: int) -> int, v: int) -> int { return f(v); }\nfn main() {\n  println(apply(fn(x: int) -> int { apply(fn(x: int) -> int { x + 1 }, x) + 100 }, A));\n  println(apply(fn(x: int) -> int { let g = fn(b: int) -> int { fn(c: int) -> int { c * 3 }(b) - 1 }; g(x) }, B));\n}\n"},
	{"lambda", "fn main() {\n  let f = fn(a: int, b: int) -> int { a * 2 - b };\n  println(f(A, B));\n}\n"},
	{"range", "fn main() {\n  for i in 0..3 { println(i + A); }\n  for i in 0..=2 { println(i); }\n}\n"},
	{"index", "fn main() {\n  let l = [10, 20, 30];\n  println(l[0], l[2], l[0 - 1]);\n  println(l[A]);\n  println(\"after\");\n}\n"},
	{"throw2", "fn inner(n: int) -> int { let q = n + 1; if n > 0 { throw(\"deep\"); } return q; }\nfn outer(n: int) -> int { let r = 5; let v = inner(n); return v + r; }\nfn main() {\n  let x = 41;\n  try { println(outer(A)); } catch e { println(\"caught\", e.message); }\n  println(x);\n  println(outer(0));\n}\n"},
	{"uncaught", "fn main() {\n  println(\"before\");\n  if P { throw(\"oops\"); }\n  println(\"after\");\n}\n"},
	{"globals", "let g = 5;\nfn bump() { g += 1; }\nfn main() {\n  bump();\n  bump();\n  println(g + A);\n}\n"},
	{"option", "fn main() {\n  let o = ?A;\n  println(o);\n  let n: ?int = none;\n  println(n);\n}\n"},
	{"assignops", "fn main() {\n  let a = A;\n  a += B;\n  a -= 2;\n  a *= 3;\n  println(a);\n  a /= 2;\n  a %= 5;\n  println(a);\n  a <<= 1;\n  a |= 1;\n  a &= 7;\n  a ^= 2;\n  println(a);\n}\n"},
	{"nestedcalls", "fn add(a: int, b: int) -> int { return a + b; }\nfn twice(a: int) -> int { return add(a, a); }\nfn main() {\n  println(add(twice(A), twice(add(B, 1))));\n}\n"},
	{"strcat", "fn main() {\n  let s = \"a\" + \"b\";\n  println(s + \"c\", s == \"ab\", s != \"ab\");\n}\n"},
	{"breaknested", "fn main() {\n  for i in 0..3 {\n    for j in 0..3 {\n      if j == A { break; }\n      if i == B { continue; }\n      println(i, j);\n    }\n  }\n  println(\"end\");\n}\n"},
	{"copy-into-list-literal", "fn main() {\n  let a = A;\n  let l = [a, B];\n  l[0] = C;\n  println(a, l[0]);\n  a = 7;\n  println(a, l[0]);\n}\n"},
	{"copy-into-object-literal", "fn main() {\n  let a = A;\n  let o = new { f: a, g: B };\n  o.f = C;\n  println(a, o.f);\n  a = 7;\n  println(a, o.f);\n}\n"},
	{"copy-into-parameter", "fn set(x: int) -> int { x = x + 5; return x; }\nfn main() {\n  let a = A;\n  println(set(a), a);\n  let f = fn(y: int) -> int { y = y * 2; y };\n  println(f(a), a);\n}\n"},
	{"copy-out-of-function", "fn id(x: int) -> int { x }\nfn main() {\n  let a = A;\n  let l = [id(a)];\n  l[0] = C;\n  let b = id(a);\n  b += 1;\n  println(a, l[0], b);\n}\n"},
	{"copy-out-of-container", "fn main() {\n  let l = [A, B];\n  let x = l[0];\n  x = C;\n  let o = new { f: A };\n  let y = o.f;\n  y = C;\n  for z in l { z = 0; }\n  println(l[0], l[1], o.f, x, y);\n}\n"},
	{"range-variable-reiterated", "fn main() {\n  let r = 0..5;\n  for i in r {\n    if i == 2 { break; }\n  }\n  for i in r { println(i); }\n  let q = 0..=2;\n  for i in q { for j in q { println(i, j); } }\n}\n"},
	{"string-variable-reiterated", "fn first(s: str, c: str) -> bool {\n  for x in s {\n    if x == c { return true; }\n  }\n  return false;\n}\nfn main() {\n  let s = \"abc\";\n  println(first(s, \"b\"), first(s, \"a\"));\n  for x in s { println(x); }\n}\n"},
	{"range-parameter-searched-twice", "fn has(r: range, n: int) -> bool {\n  for i in r {\n    if i == n { return true; }\n  }\n  return false;\n}\nfn main() {\n  let r = 0..4;\n  println(has(r, 3), has(r, 1), has(r, A));\n}\n"},
	{"closure-argument-names", "fn main() {\n  let f = fn(a: int, b: int) -> int { a - b };\n  let a = A;\n  let b = B;\n  println(f(b, a), f(a, b), f(b + 1, a + b));\n}\n"},
	{"catch-identifier-scope", "fn main() {\n  let e = A;\n  try {\n    throw(\"x\");\n  } catch e {\n    println(e.message);\n  }\n  println(e);\n  let v = try { if P { throw(\"y\"); } 1 } catch e { 2 };\n  println(v, e + 1);\n}\n"},
	{"many-declarations-of-one-name", "fn main() {\n  let x1 = A;\n  { let x = 0; println(x); }\n  { let x = 1; println(x); }\n  { let x = 2; println(x); }\n  { let x = 3; println(x); }\n  { let x = 4; println(x); }\n  { let x = 5; println(x); }\n  { let x = 6; println(x); }\n  { let x = 7; println(x); }\n  { let x = 8; println(x); }\n  { let x = 9; println(x); }\n  let x = B;\n  println(x1, x);\n  x = C;\n  println(x1, x);\n  let x10 = 5;\n  println(x1, x, x10);\n}\n"},
	{"listloop", "fn main() {\n  let l = [A, B, C];\n  let sum = 0;\n  for x in l { sum += x; }\n  println(sum, l);\n}\n"},
}

// Scoping: a `let` inside the body of every block-introducing construct shadows an outer variable only inside it.
func init() {
	bodies := []struct{ name, open, close string }{
		{"then", "if A == A {", "}"},
		{"else", "if A != A { println(0); } else {", "}"},
		{"else-if", "if A != A { println(0); } else if B == B {", "} else { println(9); }"},
		{"loop", "loop {", "  break;\n  }"},
		{"while", "let w = 0;\n  while w < 1 {\n    w += 1;", "}"},
		{"for", "for k in 0..1 {", "}"},
		{"match-arm", "match 1 {\n    1 => {", "},\n    _ => { println(0); },\n  }"},
		{"match-default", "match 2 {\n    1 => { println(0); },\n    _ => {", "},\n  }"},
		{"try", "try {", "} catch e { println(e.message); }"},
		{"catch", "try { throw(\"t\"); } catch e {", "}"},
		{"block", "{", "}"},
		{"block-expression", "let u = 1 + {", "  2\n  };\n  println(u);"},
	}
	for _, b := range bodies {
		code := "let g = 100;\nfn show() { println(g); }\nfn main() {\n  let v = A;\n  let g = 7;\n  " + b.open + "\n    let v = B;\n    let g = 8;\n    println(v, g);\n    show();\n  " + b.close + "\n  println(v, g);\n  show();\n}\n"
		verifTemplates = append(verifTemplates, verifTemplate{"scope-" + b.name, code})
	}
}

// VerifHarness_Templates: each catalogue program under the oracle chosen by "mode".
func VerifHarness_Templates() {
	mode := errors.VerifParam("mode", 1)
	t := verifTemplates[errors.VerifNdIntRange("template", 0, len(verifTemplates)-1)]
	errors.VerifTag("template", t.name)
	a, b, c := errors.VerifNdInt64("A"), errors.VerifNdInt64("B"), errors.VerifNdInt64("C")
	x, y := errors.VerifNdFloat64("X"), errors.VerifNdFloat64("Y")
	p, q := errors.VerifNdBool("P"), errors.VerifNdBool("Q")
	inputs := []verifInput{{name: "A", kind: 'i', i: a}, {name: "B", kind: 'i', i: b}, {name: "C", kind: 'i', i: c},
		{name: "X", kind: 'f', f: x}, {name: "Y", kind: 'f', f: y}, {name: "P", kind: 'b', b: p}, {name: "Q", kind: 'b', b: q}}
	verifCheckProgram(mode, t.code, inputs, true)
}

// Range family: the bounds of every range are host-provided globals S and E,
// unconstrained inside the window [-3, 3] (all four orders: ascending,
// descending, equal, adjacent), so that the iteration direction, the
// inclusive end and the re-iteration of a range held in a variable are all
// decided by the solver; K is the position of an early exit.
var verifRangeTemplates = []verifTemplate{
	{"literal-in-head", "fn main() {\n  for i in S..E { println(i); }\n  println(\"-\");\n  for i in S..=E { println(i); }\n}\n"},
	{"variable-exclusive-early-exit", "fn main() {\n  let r = S..E;\n  for i in r {\n    if i == K { break; }\n    println(i);\n  }\n  println(\"-\");\n  for i in r { println(i); }\n}\n"},
	{"variable-inclusive-early-exit", "fn first(r: range) -> int {\n  for i in r {\n    if i == K { return i; }\n  }\n  return 100;\n}\nfn main() {\n  let r = S..=E;\n  println(first(r));\n  for i in r { println(i); }\n}\n"},
	{"variable-nested", "fn main() {\n  let r = S..=E;\n  let n = 0;\n  for i in r { for j in r { n += 1; println(i * 10 + j); } }\n  println(n);\n}\n"},
	{"throw-out-of-loop", "fn scan(r: range) {\n  for i in r {\n    if i == K { throw(\"hit\"); }\n    println(i);\n  }\n}\nfn main() {\n  let r = S..E;\n  try { scan(r); } catch e { println(e.message); }\n  for i in r { println(i); }\n}\n"},
	{"members", "fn main() {\n  let r = S..=E;\n  println(r.start, r.end, r.diff(), r);\n  let q = r.rev();\n  println(q.start, q.end);\n  for i in q { println(i); }\n}\n"},
}

func VerifHarness_Ranges() {
	mode := errors.VerifParam("mode", 1)
	t := verifRangeTemplates[errors.VerifNdIntRange("template", 0, len(verifRangeTemplates)-1)]
	errors.VerifTag("template", t.name)
	s, e, k := errors.VerifNdInt64("S"), errors.VerifNdInt64("E"), errors.VerifNdInt64("K")
	errors.VerifAssume(s >= -3 && s <= 3)
	errors.VerifAssume(e >= -3 && e <= 3)
	errors.VerifAssume(k >= -4 && k <= 4)
	inputs := []verifInput{{name: "S", kind: 'i', i: s}, {name: "E", kind: 'i', i: e}, {name: "K", kind: 'i', i: k}}
	verifCheckProgram(mode, t.code, inputs, true)
}
