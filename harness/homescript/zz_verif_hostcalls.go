package homescript

import (
	"context"
	"fmt"

	"github.com/smarthome-go/homescript/v3/homescript/analyzer/ast"
	"github.com/smarthome-go/homescript/v3/homescript/compiler"
	"github.com/smarthome-go/homescript/v3/homescript/errors"
	pAst "github.com/smarthome-go/homescript/v3/homescript/parser/ast"
	"github.com/smarthome-go/homescript/v3/homescript/runtime"
	vvalue "github.com/smarthome-go/homescript/v3/homescript/runtime/value"
)

// C16: symbolic call histories against ONE runtime.VM. The reference state
// machine (value of the global `g` as a term) lives in the harness.

const verifHostProgram = "import trigger minute from triggers;\nimport templ FooFeature from templates;\n" +
	"$Device = { b: int };\n" +
	"impl FooFeature with { light } for $Device {\n  fn dim(self: $Device, percent: int) -> bool {\n    if self.b == percent { return false; }\n    self.b = percent;\n    true\n  }\n}\n" +
	"event fn cb(elapsed: int) { println(elapsed); }\n" +
	"fn reg(m: int) -> int {\n  trigger cb at minute(m);\n  return m + 1;\n}\n" +
	"let g = 0;\nlet window = 0..6;\n" +
	"fn scan(n: int) -> int {\n  for i in window {\n    if i >= n { return i; }\n  }\n  return 0 - 1;\n}\n" +
	"fn sub(a: int, b: int) -> int { return a - b; }\n" +
	"fn inc(d: int) -> int { g += d; return g; }\n" +
	"fn early(n: int) -> int {\n  for i in 0..3 {\n    try {\n      if i == n { return i * 10; }\n    } catch e { }\n  }\n  return 99;\n}\n" +
	"fn boom(a: int) -> int {\n  let local = a * 2;\n  if a > 0 { throw(\"boom\"); }\n  return local;\n}\n" +
	"fn lst(a: int) -> [int] { return [a, a + 1]; }\n" +
	"fn checked(a: int) -> int {\n  try {\n    return boom(a) + 1;\n  } catch e {\n    return 0 - 1;\n  }\n}\n" +
	"fn main() { }\n"

var verifHostTargets = []string{"sub", "inc", "early", "boom", "lst", "dim", "reg", "scan", "checked"}

type verifHostVM struct {
	vm       runtime.VM
	ctx      *verifCtx
	triggers *[]string
}

func verifNewHostVM() verifHostVM {
	an := verifAnalyze(verifHostProgram, nil, nil, true)
	if an.hasError {
		errors.VerifInconclusive("host program rejected: " + an.describe())
	}
	comp := compiler.NewCompiler(an.modules, verifFile)
	compiled, err := comp.Compile()
	if err != nil {
		errors.VerifInconclusive("compile error")
	}
	out := ""
	var triggers []string
	exec := verifVmExec{out: &out, triggers: &triggers}
	ctx := newVerifCtx()
	var cctx context.Context = ctx
	var cancel context.CancelFunc = ctx.cancel
	return verifHostVM{vm: runtime.NewVM(compiled, vvalue.Executor(exec), &cctx, &cancel, verifVmScope(nil), verifLimits), ctx: ctx, triggers: &triggers}
}

func verifIntParam(name string) runtime.FunctionInvocationSignatureParam {
	return runtime.FunctionInvocationSignatureParam{Ident: name, Type: ast.NewIntType(errors.Span{})}
}

func VerifHarness_HostCalls() {
	H := errors.VerifParam("H", 2)
	h := verifNewHostVM()
	g := int64(0) // reference value of the global
	dev := int64(0) // reference value of the singleton's field
	nTrig := 0      // reference number of registered triggers
	failed := false
	for step := 0; step < H; step++ {
		ti := errors.VerifNdIntRange(fmt.Sprintf("target%d", step), 0, len(verifHostTargets)-1)
		target := verifHostTargets[ti]
		a := errors.VerifNdInt64(fmt.Sprintf("a%d", step))
		b := errors.VerifNdInt64(fmt.Sprintf("b%d", step))
		errors.VerifTag(fmt.Sprintf("call%d", step), target)
		inv := runtime.FunctionInvocation{Function: target, Args: []vvalue.Value{*vvalue.NewValueInt(a)},
			FunctionSignature: runtime.FunctionInvocationSignature{Params: []runtime.FunctionInvocationSignatureParam{verifIntParam("a")}, ReturnType: ast.NewIntType(errors.Span{})}}
		switch target {
		case "sub":
			inv.Args = append(inv.Args, *vvalue.NewValueInt(b))
			inv.FunctionSignature.Params = append(inv.FunctionSignature.Params, verifIntParam("b"))
		case "inc":
			inv.FunctionSignature.Params[0].Ident = "d"
		case "early":
			inv.FunctionSignature.Params[0].Ident = "n"
		case "lst":
			inv.FunctionSignature.ReturnType = ast.NewListType(ast.NewIntType(errors.Span{}), errors.Span{})
		case "dim":
			inv.FunctionSignature.Params[0].Ident = "percent"
			inv.FunctionSignature.ReturnType = ast.NewBoolType(errors.Span{})
		case "reg":
			inv.FunctionSignature.Params[0].Ident = "m"
		case "scan":
			inv.FunctionSignature.Params[0].Ident = "n"
		}
		var res runtime.FunctionInvocationResult
		panicked, msg := errors.VerifPanics(func() { res = h.vm.SpawnSync(inv, nil, nil) })
		if panicked {
			errors.VerifTag("panic", errors.VerifNorm(msg))
		}
		errors.VerifAssert("host-call-never-crashes", !panicked)
		if panicked {
			return
		}
		errors.VerifReached("called")
		if failed {
			// after a failed call the VM must answer with a failure (never block: a deadlock is an engine outcome)
			errors.VerifAssert("call-after-failure-answers-with-failure", res.Exception != nil)
			continue
		}
		willThrow := target == "boom" && a > 0
		if willThrow {
			errors.VerifAssert("throwing-call-reports-exception", res.Exception != nil)
			failed = true
			continue
		}
		errors.VerifAssert("completed-call-has-no-exception", res.Exception == nil)
		if res.Exception != nil {
			return
		}
		// no residue
		errors.VerifAssert("no-core-left-registered", len(h.vm.Cores.Cores) == 0)
		rv := res.ReturnValue
		if rv == nil {
			errors.VerifAssert("call-returns-a-value", false)
			return
		}
		switch target {
		case "sub":
			errors.VerifAssert("arguments-in-declared-order", rv.Kind() == vvalue.IntValueKind && rv.(vvalue.ValueInt).Inner == a-b)
		case "inc":
			g += a
			errors.VerifAssert("sees-globals-as-earlier-calls-left-them", rv.Kind() == vvalue.IntValueKind && rv.(vvalue.ValueInt).Inner == g)
		case "early":
			want := int64(99)
			if a >= 0 && a < 3 {
				want = a * 10
			}
			errors.VerifAssert("return-from-inside-loop-and-try", rv.Kind() == vvalue.IntValueKind && rv.(vvalue.ValueInt).Inner == want)
		case "boom":
			errors.VerifAssert("result-of-non-throwing-call", rv.Kind() == vvalue.IntValueKind && rv.(vvalue.ValueInt).Inner == a*2)
		case "dim":
			// a template method: the singleton is extracted by the callee, the host passes only `percent`
			changed := dev != a
			dev = a
			errors.VerifAssert("singleton-state-persists-between-calls", rv.Kind() == vvalue.BoolValueKind && rv.(vvalue.ValueBool).Inner == changed)
		case "reg":
			nTrig++
			errors.VerifAssert("result-of-call-with-trigger-statement", rv.Kind() == vvalue.IntValueKind && rv.(vvalue.ValueInt).Inner == a+1)
			errors.VerifAssert("trigger-registered-once-per-call", len(*h.triggers) == nTrig)
			if len(*h.triggers) == nTrig {
				errors.VerifAssert("trigger-registered-with-the-call-argument", (*h.triggers)[nTrig-1] == "cb@minute("+fmt.Sprint(a)+")")
			}
		case "scan":
			// iterates a range held in a global and returns from inside the loop: the next call starts afresh
			want := int64(-1)
			if a <= 0 {
				want = 0
			} else if a <= 5 {
				want = a
			}
			errors.VerifAssert("iteration-over-a-global-range-starts-afresh-in-every-call", rv.Kind() == vvalue.IntValueKind && rv.(vvalue.ValueInt).Inner == want)
		case "checked":
			// the returned expression throws inside the try block: the function's own handler answers
			want := a*2 + 1
			if a > 0 {
				want = -1
			}
			errors.VerifAssert("throw-while-evaluating-a-returned-expression-is-caught-by-the-enclosing-try", rv.Kind() == vvalue.IntValueKind && rv.(vvalue.ValueInt).Inner == want)
		case "lst":
			ok := rv.Kind() == vvalue.ListValueKind
			if ok {
				items := *rv.(vvalue.ValueList).Values
				ok = len(items) == 2 && (*items[0]).(vvalue.ValueInt).Inner == a && (*items[1]).(vvalue.ValueInt).Inner == a+1
			}
			errors.VerifAssert("declared-list-result", ok)
		}
	}
	errors.VerifReached("history-done")
}

// ---- literals are fresh in every call ----

// Every function builds a value from a literal, mutates it in place and reports what it sees: a call must start from
// the literal as written, whatever earlier calls did to their copy (the compiled program is shared by all calls).
const verifFreshProgram = "fn anyobj(a: int) -> int {\n  let t = new { ? };\n  if a > 0 { t.set(\"pos\", a); } else { t.set(\"neg\", a); }\n  t.keys().len()\n}\n" +
	"fn lst(a: int) -> int {\n  let l = [1, 2];\n  l.push(a);\n  l.len()\n}\n" +
	"fn obj(a: int) -> int {\n  let o = new { n: 10, inner: new { m: [0] } };\n  o.n += a;\n  o.inner.m.push(a);\n  o.n * 100 + o.inner.m.len()\n}\n" +
	"fn nested(a: int) -> int {\n  let m = [[1], [2, 3]];\n  m[0].push(a);\n  m.push([a]);\n  m[0].len() * 10 + m.len()\n}\n" +
	"fn opt(a: int) -> int {\n  let o = ?[7];\n  o.unwrap().push(a);\n  o.unwrap().len()\n}\n" +
	"fn txt(a: int) -> int {\n  let s = \"ab\";\n  s += \"c\";\n  let r = 0..3;\n  let n = 0;\n  for i in r { if i == a { break; } n += 1; }\n  s.len() * 10 + n\n}\n" +
	"fn anyobj_in_list(a: int) -> int {\n  let l = [new { ? }];\n  l[0].set(\"k\", a);\n  l.push(new { ? });\n  l[1].keys().len() * 10 + l[0].keys().len()\n}\n" +
	"fn main() { }\n"

var verifFreshTargets = []string{"anyobj", "lst", "obj", "nested", "opt", "txt", "anyobj_in_list"}

func VerifHarness_HostFreshValues() {
	H := errors.VerifParam("H", 3)
	an := verifAnalyze(verifFreshProgram, nil, nil, true)
	if an.hasError {
		errors.VerifTag("diag", an.describe())
		errors.VerifAssert("accepted", false)
		return
	}
	comp := compiler.NewCompiler(an.modules, verifFile)
	compiled, err := comp.Compile()
	if err != nil {
		errors.VerifInconclusive("compile error")
	}
	out := ""
	var triggers []string
	exec := verifVmExec{out: &out, triggers: &triggers}
	ctx := newVerifCtx()
	var cctx context.Context = ctx
	var cancel context.CancelFunc = ctx.cancel
	vm := runtime.NewVM(compiled, vvalue.Executor(exec), &cctx, &cancel, verifVmScope(nil), verifLimits)
	for step := 0; step < H; step++ {
		ti := errors.VerifNdIntRange(fmt.Sprintf("target%d", step), 0, len(verifFreshTargets)-1)
		target := verifFreshTargets[ti]
		a := errors.VerifNdInt64(fmt.Sprintf("a%d", step))
		errors.VerifAssume(a >= -1000 && a <= 1000)
		errors.VerifTag(fmt.Sprintf("call%d", step), target)
		inv := runtime.FunctionInvocation{Function: target, Args: []vvalue.Value{*vvalue.NewValueInt(a)},
			FunctionSignature: runtime.FunctionInvocationSignature{Params: []runtime.FunctionInvocationSignatureParam{verifIntParam("a")}, ReturnType: ast.NewIntType(errors.Span{})}}
		var res runtime.FunctionInvocationResult
		panicked, msg := errors.VerifPanics(func() { res = vm.SpawnSync(inv, nil, nil) })
		if panicked {
			errors.VerifTag("panic", errors.VerifNorm(msg))
		}
		errors.VerifAssert("host-call-never-crashes", !panicked)
		if panicked {
			return
		}
		errors.VerifReached("called")
		errors.VerifAssert("completed-call-has-no-exception", res.Exception == nil)
		if res.Exception != nil || res.ReturnValue == nil {
			return
		}
		var want int64
		switch target {
		case "anyobj":
			want = 1
		case "lst":
			want = 3
		case "obj":
			want = (10+a)*100 + 2
		case "nested":
			want = 23
		case "opt":
			want = 2
		case "txt":
			n := int64(3)
			if a >= 0 && a < 3 {
				n = a
			}
			want = 30 + n
		case "anyobj_in_list":
			want = 1
		}
		rv := res.ReturnValue
		errors.VerifAssert("call-starts-from-the-literal-as-written", rv.Kind() == vvalue.IntValueKind && rv.(vvalue.ValueInt).Inner == want)
	}
	errors.VerifReached("history-done")
}

// ---- every declared result type comes back ----

// VerifHarness_HostReturnTypes: a host call into a function of each result type (declared to the VM with the same type)
// hands back a value of that type which carries the argument (null functions hand back nothing).
func VerifHarness_HostReturnTypes() {
	sp := errors.Span{}
	intT := ast.NewIntType(sp)
	kinds := []struct {
		name, decl string
		typ        ast.Type
		kind       vvalue.ValueKind
	}{
		{"r_int", "fn r_int(a: int) -> int { a + 1 }", intT, vvalue.IntValueKind},
		{"r_float", "fn r_float(a: int) -> float { a as float }", ast.NewFloatType(sp), vvalue.FloatValueKind},
		{"r_bool", "fn r_bool(a: int) -> bool { a > 0 }", ast.NewBoolType(sp), vvalue.BoolValueKind},
		{"r_str", "fn r_str(a: int) -> str { \"v\" }", ast.NewStringType(sp), vvalue.StringValueKind},
		{"r_list", "fn r_list(a: int) -> [int] { [a] }", ast.NewListType(intT, sp), vvalue.ListValueKind},
		{"r_obj", "fn r_obj(a: int) -> { k: int } { new { k: a } }", ast.NewObjectType([]ast.ObjectTypeField{ast.NewObjectTypeField(pAstIdent("k"), intT, sp)}, sp), vvalue.ObjectValueKind},
		{"r_anyobj", "fn r_anyobj(a: int) -> { ? } { let o = new { ? }; o.set(\"k\", a); o }", ast.NewAnyObjectType(sp), vvalue.AnyObjectValueKind},
		{"r_opt", "fn r_opt(a: int) -> ?int { ?a }", ast.NewOptionType(intT, sp), vvalue.OptionValueKind},
		{"r_range", "fn r_range(a: int) -> range { 0..a }", ast.NewRangeType(sp), vvalue.RangeValueKind},
		{"r_null", "fn r_null(a: int) { println(a); }", ast.NewNullType(sp), vvalue.NullValueKind},
	}
	ki := errors.VerifNdIntRange("result", 0, len(kinds)-1)
	k := kinds[ki]
	errors.VerifTag("result", k.name)
	code := ""
	for _, d := range kinds {
		code += d.decl + "\n"
	}
	code += "fn main() { }\n"
	an := verifAnalyze(code, nil, nil, true)
	if an.hasError {
		errors.VerifTag("diag", an.describe())
		errors.VerifAssert("accepted", false)
		return
	}
	comp := compiler.NewCompiler(an.modules, verifFile)
	compiled, err := comp.Compile()
	if err != nil {
		errors.VerifInconclusive("compile error")
	}
	out := ""
	var triggers []string
	exec := verifVmExec{out: &out, triggers: &triggers}
	ctx := newVerifCtx()
	var cctx context.Context = ctx
	var cancel context.CancelFunc = ctx.cancel
	vm := runtime.NewVM(compiled, vvalue.Executor(exec), &cctx, &cancel, verifVmScope(nil), verifLimits)
	a := errors.VerifNdInt64("a")
	errors.VerifAssume(a >= -1000 && a <= 1000)
	inv := runtime.FunctionInvocation{Function: k.name, Args: []vvalue.Value{*vvalue.NewValueInt(a)},
		FunctionSignature: runtime.FunctionInvocationSignature{Params: []runtime.FunctionInvocationSignatureParam{verifIntParam("a")}, ReturnType: k.typ}}
	var res runtime.FunctionInvocationResult
	panicked, msg := errors.VerifPanics(func() { res = vm.SpawnSync(inv, nil, nil) })
	if panicked {
		errors.VerifTag("panic", errors.VerifNorm(msg))
	}
	errors.VerifAssert("host-call-never-crashes", !panicked)
	if panicked {
		return
	}
	errors.VerifReached("called")
	errors.VerifAssert("completed-call-has-no-exception", res.Exception == nil)
	if res.Exception != nil {
		return
	}
	if k.kind == vvalue.NullValueKind {
		return
	}
	errors.VerifAssert("declared-result-comes-back", res.ReturnValue != nil)
	if res.ReturnValue == nil {
		return
	}
	errors.VerifAssert("result-has-the-declared-kind", res.ReturnValue.Kind() == k.kind)
	if k.name == "r_int" {
		errors.VerifAssert("result-carries-the-argument", res.ReturnValue.(vvalue.ValueInt).Inner == a+1)
	}
	if k.name == "r_anyobj" && res.ReturnValue.Kind() == vvalue.AnyObjectValueKind {
		f := res.ReturnValue.(vvalue.ValueAnyObject).FieldsInternal["k"]
		errors.VerifAssert("result-carries-the-argument", f != nil && (*f).Kind() == vvalue.IntValueKind && (*f).(vvalue.ValueInt).Inner == a)
	}
}

func pAstIdent(name string) pAst.SpannedIdent { return pAst.NewSpannedIdent(name, errors.Span{}) }
