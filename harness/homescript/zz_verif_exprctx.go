package homescript

import (
	"fmt"

	"github.com/smarthome-go/homescript/v3/homescript/errors"
)

// Expression x position product: every int-valued expression form (each evaluates to 2, some with a visible side
// effect) placed in every position that consumes a value. The oracle is chosen by "mode" (1 VM vs reference
// interpreter, 2 no Go panic, 4 VM vs tree interpreter, 16 tree vs reference).

var veExprs = []string{
	"2",
	"(1 + 1)",
	"two()",
	"if T { 2 } else { 3 }",
	"if A == A { two() } else { 3 }",
	"match 1 { 1 => 2, _ => 3 }",
	"match 5 { 1 => 3, _ => two() }",
	"try { two() } catch e { 3 }",
	"try { thrower() } catch e { 2 }",
	"{ let t = 1; t + 1 }",
	"inc(1)",
	"lst[1]",
	"lst[0 - 2]",
	"obj.f",
	"(2.9 as int)",
	"-(0 - 2)",
	"opt.unwrap()",
	"\"ab\".len()",
	"{ x = 2; x }",
	"(lst.len() - 1)",
	"{ lst.push(4); 2 }",
	"{ println(\"blk\"); 2 }",
	"((anyo->a).unwrap() as int)",
	"{ let w: int = anyo~>a; w }",
	"try { nopt.unwrap() } catch e { 2 }",
	"try { let w: int = anyo~>zz; w } catch e { 2 }",
	"if (anyo->zz).is_none() { 2 } else { 3 }",
	"{ let w: ?any = anyo->zz; 2 }",
}

// %E is the expression; every context prints what it computed
var veContexts = []string{
	"  println(10 + %E);\n",
	"  println(%E * 3 - %E);\n",
	"  println(add(%E, 5), add(5, %E));\n",
	"  let l2 = [7, %E, 9];\n  println(l2);\n",
	"  println(lst[%E]);\n",
	"  if %E == 2 { println(\"y\"); } else { println(\"n\"); }\n",
	"  println(match %E { 2 => \"m\", _ => \"d\" });\n",
	"  let v = %E;\n  println(v + 1);\n",
	"  println(ret());\n",
	"  println(%E as float);\n",
	"  println((%E).to_string() + \"!\");\n",
	"  for i in 0..%E { println(i); }\n",
	"  let o2 = new { a: %E, b: 1 };\n  println(o2.a, o2.b);\n",
	"  println(?%E);\n",
	"  x = %E;\n  println(x);\n",
	"  x += %E;\n  println(x);\n",
	"  while x < %E { x += 1; }\n  println(x);\n",
	"  println([%E, %E].len(), [1, 2, 3][%E - 1]);\n",
	"  try { if %E == 2 { throw(\"t\"); } println(\"no\"); } catch e { println(e.message); }\n",
	"  obj.f = %E + 1;\n  println(obj.f);\n",
	"  lst[%E - 2] = %E * 5;\n  println(lst);\n",
	"  println(%E == %E, %E < 3, !(%E > 2));\n",
	"  let q = if %E > 1 { %E } else { 0 };\n  println(q);\n",
	"  println(1 + { let w = %E; w * 2 });\n",
	"  %E;\n  println(\"stmt\");\n",
}

const vePreFns = "fn two() -> int { println(\"two\"); return 2; }\nfn thrower() -> int { throw(\"boom\"); }\nfn add(a: int, b: int) -> int { return a + b; }\n"
const veLocals = "  let lst = [1, 2, 3];\n  let obj = new { f: 2 };\n  let opt = ?2;\n  let x = 0;\n  let inc = fn(a: int) -> int { a + 1 };\n"

func veSubst(ctx, e string) string {
	out := ""
	for i := 0; i < len(ctx); i++ {
		if ctx[i] == '%' && i+1 < len(ctx) && ctx[i+1] == 'E' {
			out += e
			i++
			continue
		}
		out += string(ctx[i])
	}
	return out
}

func VerifHarness_ExprContexts() {
	mode := errors.VerifParam("mode", 1)
	ei := errors.VerifNdIntRange("expr", 0, len(veExprs)-1)
	ci := errors.VerifNdIntRange("ctx", 0, len(veContexts)-1)
	errors.VerifTag("expr", veExprs[ei])
	errors.VerifTag("ctx", fmt.Sprint(ci))
	e := veExprs[ei]
	// locals that only some expressions need (the reference interpreter does not model any-objects)
	locals := veLocals
	if veContains(e, "anyo") {
		locals += "  let anyo = new { a: 2 } as { ? };\n"
	}
	if veContains(e, "nopt") {
		locals += "  let nopt: ?int = none;\n"
	}
	var code string
	if ci == 8 {
		// the expression is the operand of a return statement of a function of its own
		code = vePreFns + "fn ret() -> int {\n" + locals + "  return " + e + ";\n}\nfn main() {\n" + veContexts[ci] + "}\n"
	} else {
		code = vePreFns + "fn main() {\n" + locals + veSubst(veContexts[ci], e) + "  println(\"end\", lst.len(), obj.f, x);\n}\n"
	}
	a := errors.VerifNdInt64("A")
	tv := errors.VerifNdBool("T")
	errors.VerifAssume(tv)
	inputs := []verifInput{{name: "A", kind: 'i', i: a}, {name: "T", kind: 'b', b: tv}}
	verifCheckProgramX(mode, code, inputs, true, mode != 2 && mode != 1)
}

func veContains(s, sub string) bool {
	for i := 0; i+len(sub) <= len(s); i++ {
		if s[i:i+len(sub)] == sub {
			return true
		}
	}
	return false
}

// veProgram builds the program of (expression, context) for the other harnesses that reuse this family.
func veProgram(ei, ci int) string {
	e := veExprs[ei]
	locals := veLocals
	if veContains(e, "anyo") {
		locals += "  let anyo = new { a: 2 } as { ? };\n"
	}
	if veContains(e, "nopt") {
		locals += "  let nopt: ?int = none;\n"
	}
	if ci == 8 {
		return vePreFns + "fn ret() -> int {\n" + locals + "  return " + e + ";\n}\nfn main() {\n" + veContexts[ci] + "}\n"
	}
	return vePreFns + "fn main() {\n" + locals + veSubst(veContexts[ci], e) + "  println(\"end\", lst.len(), obj.f, x);\n}\n"
}
