package homescript

import "encoding/json"

func verifJSONMarshal(v interface{}) ([]byte, error) { return json.Marshal(v) }

func verifJSONUnmarshal(b []byte) (interface{}, error) {
	var raw interface{}
	err := json.Unmarshal(b, &raw)
	return raw, err
}
