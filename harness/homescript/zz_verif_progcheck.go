package homescript

import (
	"fmt"
	"os"

	"github.com/smarthome-go/homescript/v3/homescript/errors"
)

func verifDebug(what string, v ...any) {
	if os.Getenv("VERIF_DEBUG") != "" {
		fmt.Println("VERIF-DEBUG", what)
		fmt.Println(v...)
	}
}

// Modes of verifCheckProgram (VerifParam "mode"):
//   1  VM vs reference interpreter                     (C01, C11)
//   2  no Go panic on either back end                  (C02)
//   4  VM vs tree interpreter                          (C04)
//   16 tree interpreter vs reference                   (C11, second back end)

func verifNormClass(c string) string {
	switch c {
	case "fatal:UncaughtThrow":
		return "fatal:uncaught"
	case "fatal:ValueError":
		return "fatal:value"
	case "fatal:IndexOutOfBounds":
		return "fatal:index"
	case "fatal:StackOverFlow":
		return "fatal:stackoverflow"
	}
	return c
}

func verifHasPrefix(s, p string) bool { return len(s) >= len(p) && s[:len(p)] == p }

// verifCheckProgram runs one program text under the oracle selected by mode.
// mustAccept: the family only generates well-typed programs, so a rejection is
// itself reported (label "accepted") in mode 1.
func verifCheckProgram(mode int, code string, inputs []verifInput, mustAccept bool) {
	verifCheckProgramX(mode, code, inputs, mustAccept, true)
}

// crashIsOthers: a Go panic of the host is left to C02 (true) or is a violation of this check too (false).
func verifCheckProgramX(mode int, code string, inputs []verifInput, mustAccept bool, crashIsOthers bool) {
	verifDebug("program", code)
	an := verifAnalyze(code, nil, inputs, true)
	if an.hasError {
		verifDebug("rejected", an.describe())
		errors.VerifReached("rejected")
		if mustAccept && mode == 1 {
			errors.VerifTag("diag", an.describe())
			errors.VerifAssert("accepted", false)
		}
		return
	}
	errors.VerifReached("accepted")
	var vm, tr verifOutcome
	if mode == 2 {
		p1, m1 := errors.VerifPanics(func() { vm = verifRunVM(an, nil, inputs, verifLimits, newVerifCtx()) })
		if p1 {
			errors.VerifTag("panic", errors.VerifNorm(m1))
		}
		errors.VerifAssert("vm-no-panic", !p1)
		errors.VerifUntag("panic")
		p2, m2 := errors.VerifPanics(func() { tr = verifRunTree(an, nil, inputs, 100, newVerifCtx()) })
		if p2 {
			errors.VerifTag("panic", errors.VerifNorm(m2))
		}
		errors.VerifAssert("tree-no-panic", !p2)
		errors.VerifReached("ran")
		return
	}
	if crashIsOthers {
		errors.VerifTag("__ignore_panic", "C02") // crashes are C02's subject
	}
	if mode == 1 || mode == 4 {
		p1, m1 := errors.VerifPanics(func() { vm = verifRunVM(an, nil, inputs, verifLimits, newVerifCtx()) })
		if p1 {
			errors.VerifReached("vm-panicked-skipped")
			if !crashIsOthers {
				errors.VerifTag("panic", errors.VerifNorm(m1))
				errors.VerifAssert("vm-no-crash", false)
			}
			return
		}
	}
	if mode == 4 || mode == 16 {
		p2, m2 := errors.VerifPanics(func() { tr = verifRunTree(an, nil, inputs, 100, newVerifCtx()) })
		if p2 {
			errors.VerifReached("tree-panicked-skipped")
			if !crashIsOthers {
				errors.VerifTag("panic", errors.VerifNorm(m2))
				errors.VerifAssert("tree-no-crash", false)
			}
			return
		}
	}
	if mode == 4 {
		errors.VerifReached("ran")
		verifAgree(vm, tr)
		return
	}
	// reference
	parsed, _, perr := Parse(code, verifFile)
	if perr != nil {
		errors.VerifInconclusive("reference: program does not parse")
	}
	ref, why, ok := verifRefRun(parsed, inputs)
	if !ok {
		errors.VerifTag("ref-unsupported", why)
		errors.VerifReached("ref-unsupported")
		return
	}
	errors.VerifReached("ran")
	verifDebug("ref", ref.class, ref.out, ref.msg)
	verifDebug("vm", vm.class, vm.out, vm.msg)
	verifDebug("tree", tr.class, tr.out, tr.msg)
	got := vm
	who := "vm"
	if mode == 16 {
		got = tr
		who = "tree"
	}
	errors.VerifAssert(who+"-outcome-class", verifNormClass(got.class) == ref.class)
	errors.VerifAssert(who+"-output", got.out == ref.out)
	if ref.class == "fatal:uncaught" && verifNormClass(got.class) == ref.class {
		errors.VerifAssert(who+"-uncaught-message", verifHasPrefix(got.msg, ref.msg))
	}
}
