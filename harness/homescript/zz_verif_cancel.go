package homescript

import (
	"fmt"

	"github.com/smarthome-go/homescript/v3/homescript/errors"
)

// C10: the poll of the context at which cancellation becomes visible is a
// fork variable ("time is a symbolic variable"): cancelAt = k means Done()
// reports ready from its (k+1)-th call on.

type verifCancelProg struct {
	name      string
	code      string
	infinite  bool
	treeToo   bool // inside the fragment the tree interpreter implements
}

var verifCancelProgs = []verifCancelProg{
	{"loop-empty", "fn main() {\n  loop { }\n}\n", true, true},
	{"while-true", "fn main() {\n  let i = 0;\n  while true { i += 1; }\n}\n", true, true},
	{"loop-call", "fn f(a: int) -> int { return a + 1; }\nfn main() {\n  let i = 0;\n  loop { i = f(i); }\n}\n", true, true},
	{"loop-try", "fn main() {\n  loop {\n    try { throw(\"x\"); } catch e { }\n  }\n}\n", true, true},
	{"nested-loops", "fn main() {\n  loop {\n    for i in 0..3 { let x = i; }\n  }\n}\n", true, true},
	{"finite", "fn main() {\n  let s = 0;\n  for i in 0..40 { s += i; }\n  println(s);\n}\n", false, true},
	{"while-empty", "fn main() {\n  while true { }\n}\n", true, true},
	{"while-cond-empty", "fn main() {\n  let n = 1;\n  while n > 0 { }\n}\n", true, true},
	{"for-empty-huge", "fn main() {\n  for i in 0..4000000000000 { }\n}\n", true, true},
	{"for-list-inner-loop", "fn main() {\n  for x in [1, 2, 3] { loop { } }\n}\n", true, true},
	{"loop-in-catch", "fn main() {\n  try { throw(\"x\"); } catch e { loop { } }\n}\n", true, true},
	{"loop-in-callee", "fn spin() {\n  loop { }\n}\nfn main() {\n  spin();\n}\n", true, true},
	{"loop-match", "fn main() {\n  let k = 1;\n  loop { match k { 1 => { k = 2; }, _ => { k = 1; } } }\n}\n", true, true},
	{"loop-if-expr", "fn main() {\n  let k = 1;\n  loop { k = if k == 1 { 2 } else { 1 }; }\n}\n", true, true},
	{"spawn-relay", "fn tick() {\n  spawn tick();\n}\nfn main() {\n  tick();\n}\n", true, false},
	{"spawn-relay-looping-main", "fn tick() {\n  spawn tick();\n}\nfn main() {\n  tick();\n  loop { }\n}\n", true, false},
	{"blocked-in-host-function", "fn main() {\n  pause();\n}\n", true, true},
	{"blocked-in-host-function-inside-try", "fn main() {\n  try { pause(); } catch e { println(\"caught\"); }\n  loop { }\n}\n", true, true},
	{"two-cores-blocked-in-host-function", "fn w() {\n  pause();\n}\nfn main() {\n  spawn w();\n  pause();\n}\n", true, false},
	{"three-cores-blocked-in-host-function-inside-try", "fn w() {\n  try { pause(); } catch e { println(\"caught\"); }\n}\nfn main() {\n  spawn w();\n  spawn w();\n  try { pause(); } catch e { println(\"caught\"); }\n}\n", true, false},
	{"one-core-blocked-one-looping", "fn w() {\n  pause();\n}\nfn main() {\n  spawn w();\n  loop { }\n}\n", true, false},
	{"spawned-core", "fn w() {\n  loop { }\n}\nfn main() {\n  spawn w();\n  loop { }\n}\n", true, false},
}

func VerifHarness_Cancel() {
	t := verifCancelProgs[errors.VerifNdIntRange("template", 0, len(verifCancelProgs)-1)]
	backend := errors.VerifNdIntRange("backend", 0, 1)
	P := errors.VerifParam("P", 6)
	cancelAt := errors.VerifNdIntRange("cancelAt", 0, P)
	errors.VerifTag("template", t.name)
	errors.VerifTag("backend", []string{"vm", "tree"}[backend])
	if backend == 1 && !t.treeToo {
		return
	}
	an := verifAnalyze(t.code, nil, nil, true)
	if an.hasError {
		errors.VerifInconclusive("cancel program rejected: " + an.describe())
	}
	ctx := newVerifCtx()
	ctx.cancelAt = cancelAt
	base := errors.VerifLiveGoroutines()
	var o verifOutcome
	panicked, msg := errors.VerifPanics(func() {
		if backend == 0 {
			o = verifRunVM(an, nil, nil, verifLimits, ctx)
		} else {
			o = verifRunTree(an, nil, nil, 100, ctx)
		}
	})
	if panicked && verifHasPrefix(msg, "Fatal: VM encountered exception during initialization code") {
		// cancellation observed while NewVM runs the program's init code: NewVM has no way to report it and panics
		errors.VerifUntag("template")
		errors.VerifAssert("cancellation-during-vm-construction-is-reported-not-panicked", false)
		return
	}
	if panicked {
		errors.VerifTag("panic", errors.VerifNorm(msg))
	}
	errors.VerifAssert("cancellation-never-crashes-the-host", !panicked)
	if panicked {
		return
	}
	errors.VerifReached("returned")
	if t.infinite {
		errors.VerifAssert("cancelled-run-ends-with-termination-interrupt", o.class == "terminated")
	} else {
		errors.VerifAssert("outcome-is-termination-or-the-programs-own", o.class == "terminated" || (o.class == "ok" && o.out == "780\n"))
	}
	// promptness: the run does not keep polling (and therefore executing) long after the flip
	errors.VerifTag("polls", fmt.Sprint(ctx.polls > cancelAt+3))
	errors.VerifAssert("stops-within-a-bounded-number-of-polls-after-cancellation", ctx.polls <= cancelAt+3)
	errors.VerifUntag("polls")
	// nothing is left running or blocked behind the wait
	errors.VerifAssert("no-core-left-running-or-blocked", errors.VerifLiveGoroutines() <= base)
}

// Staggered cores under cancellation: a core that ends at once, a core that ends after a delay, and an endless core
// spawned after main waited a while (so the wait loop has collected the first core in between); main then ends.
// The program can only end by the host's cancellation: Wait must not return before it, must then report the
// termination, and no core may be left behind. The delays and the cancellation poll are selectors.
const verifCancelStaggeredProgram = "let t = 0;\n" +
	"fn quick() {\n  t += 1;\n}\n" +
	"fn mid() {\n  let i = 0;\n  while i < S {\n    i += 1;\n    t += 1;\n  }\n}\n" +
	"fn forever() {\n  loop {\n    t += 1;\n  }\n}\n" +
	"fn main() {\n  spawn quick();\n  spawn mid();\n  let j = 0;\n  while j < M {\n    j += 1;\n    t += 1;\n  }\n  spawn forever();\n}\n"

func VerifHarness_CancelStaggered() {
	s := errors.VerifNdIntRange("S", 1, errors.VerifParam("S", 5))
	m := errors.VerifNdIntRange("M", 0, errors.VerifParam("M", 5))
	P := errors.VerifParam("P", 12)
	cancelAt := errors.VerifNdIntRange("cancelAt", P/2, P)
	errors.VerifTag("delays", fmt.Sprint("S=", s, " M=", m))
	inputs := []verifInput{{name: "S", kind: 'i', i: int64(s)}, {name: "M", kind: 'i', i: int64(m)}}
	an := verifAnalyze(verifCancelStaggeredProgram, nil, inputs, true)
	if an.hasError {
		errors.VerifInconclusive("program rejected: " + an.describe())
	}
	ctx := newVerifCtx()
	ctx.cancelAt = cancelAt
	base := errors.VerifLiveGoroutines()
	var o verifOutcome
	panicked, msg := errors.VerifPanics(func() { o = verifRunVM(an, nil, inputs, verifLimits, ctx) })
	if panicked {
		errors.VerifTag("panic", errors.VerifNorm(msg))
	}
	errors.VerifAssert("cancellation-never-crashes-the-host", !panicked)
	if panicked {
		return
	}
	errors.VerifReached("returned")
	errors.VerifAssert("wait-does-not-return-before-the-cancellation", ctx.polls > cancelAt || o.class == "terminated")
	errors.VerifAssert("cancelled-run-ends-with-termination-interrupt", o.class == "terminated")
	errors.VerifAssert("no-core-left-running-or-blocked", errors.VerifLiveGoroutines() <= base)
}
