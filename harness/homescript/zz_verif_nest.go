package homescript

import (
	"fmt"

	"github.com/smarthome-go/homescript/v3/homescript/errors"
)

// Nesting family (C11): D nesting slots around one exit statement, markers
// before / inside each level after the exit point / after the whole construct,
// a local per level read after the exit, and a second call of the same
// function (so stale handlers, frames or operand-stack residue would show).
//
//   fn f(p: bool) -> int {
//       println("in");
//       let a0 = 10;
//       <slot 0 open>
//         let a1 = 11;
//         <slot 1 open>
//            if p { <exit> }
//            println("m1", a1);
//         <slot 1 close>
//         println("m0", a0);
//       <slot 0 close>
//       println("end");
//       return 1;
//   }
//   fn main() { println(f(P)); println(f(false)); try { throw("z"); } catch e { println(e.message); } println("done"); }

var verifSlotKinds = []string{"loop", "while", "for", "block", "if", "else", "matcharm", "matchdef", "try", "catch", "call", "operand", "call2"}
var verifExitKinds = []string{"break", "continue", "return", "throw", "fatal"}

type verifNestGen struct {
	slots    []int
	exit     int
	exitForm int    // 0: `if p { exit }`, 1: `if !p { ... } else { exit }`
	helper   string // extra functions (for "call" slots)
	nfn      int
	guard    string // loop-guard counter declarations
	withLine bool   // catch blocks also print the line their error carries (not for programs that are printed and re-read: layout is not meaning)
}

func (g *verifNestGen) exitStmt() string {
	switch verifExitKinds[g.exit] {
	case "break":
		return "break;"
	case "continue":
		return "continue;"
	case "return":
		return "return 7;"
	case "throw":
		return "throw(\"boom\");"
	}
	return "let z = [1]; println(z[A]);" // fatal when A is out of range
}

// body builds level lvl; inLoop tells whether a loop encloses it inside the current function.
func (g *verifNestGen) body(lvl int, inLoop bool) (string, bool) {
	ind := ""
	for i := 0; i <= lvl; i++ {
		ind += "  "
	}
	if lvl == len(g.slots) {
		ek := verifExitKinds[g.exit]
		if (ek == "break" || ek == "continue") && !inLoop {
			return "", false // would be rejected by the analyzer: not part of this family
		}
		if g.exitForm == 1 {
			// the exit sits in the else branch, the then branch completes normally
			return ind + "if !p { println(\"stay\"); } else { " + g.exitStmt() + " }\n", true
		}
		return ind + "if p { " + g.exitStmt() + " }\n", true
	}
	kind := verifSlotKinds[g.slots[lvl]]
	local := fmt.Sprintf("a%d", lvl+1)
	decl := ind + "let " + local + " = " + fmt.Sprint(11+lvl) + ";\n"
	after := ind + "println(\"m" + fmt.Sprint(lvl) + "\", " + local + ");\n"
	cnt := fmt.Sprintf("c%d", lvl)
	switch kind {
	case "loop", "while", "for":
		inner, ok := g.body(lvl+1, true)
		if !ok {
			return "", false
		}
		head := ""
		switch kind {
		case "loop":
			head = ind + "let " + cnt + " = 0;\n" + ind + "loop {\n" + ind + "  " + cnt + " += 1;\n" + ind + "  if " + cnt + " > 2 { break; }\n"
		case "while":
			head = ind + "let " + cnt + " = 0;\n" + ind + "while " + cnt + " < 2 {\n" + ind + "  " + cnt + " += 1;\n"
		case "for":
			head = ind + "for " + cnt + " in 0..2 {\n"
		}
		return decl + head + inner + ind + "  println(\"i" + fmt.Sprint(lvl) + "\");\n" + ind + "}\n" + after, true
	case "block":
		inner, ok := g.body(lvl+1, inLoop)
		return decl + ind + "{\n" + inner + ind + "  println(\"i" + fmt.Sprint(lvl) + "\");\n" + ind + "}\n" + after, ok
	case "if":
		inner, ok := g.body(lvl+1, inLoop)
		return decl + ind + "if " + local + " > 0 {\n" + inner + ind + "  println(\"i" + fmt.Sprint(lvl) + "\");\n" + ind + "}\n" + after, ok
	case "else":
		inner, ok := g.body(lvl+1, inLoop)
		return decl + ind + "if " + local + " < 0 { println(\"never\"); } else {\n" + inner + ind + "  println(\"i" + fmt.Sprint(lvl) + "\");\n" + ind + "}\n" + after, ok
	case "matcharm":
		inner, ok := g.body(lvl+1, inLoop)
		return decl + ind + "match " + local + " {\n" + ind + "  " + fmt.Sprint(11+lvl) + " => {\n" + inner + ind + "  println(\"i" + fmt.Sprint(lvl) + "\");\n" + ind + "  },\n" + ind + "  _ => { println(\"never\"); },\n" + ind + "}\n" + after, ok
	case "matchdef":
		inner, ok := g.body(lvl+1, inLoop)
		return decl + ind + "match " + local + " {\n" + ind + "  0 => { println(\"never\"); },\n" + ind + "  _ => {\n" + inner + ind + "  println(\"i" + fmt.Sprint(lvl) + "\");\n" + ind + "  },\n" + ind + "}\n" + after, ok
	case "try":
		inner, ok := g.body(lvl+1, inLoop)
		return decl + ind + "try {\n" + inner + ind + "  println(\"i" + fmt.Sprint(lvl) + "\");\n" + ind + "} catch e" + fmt.Sprint(lvl) + " {\n" + ind + "  println(\"caught\", e" + fmt.Sprint(lvl) + ".message" + g.lineOf("e"+fmt.Sprint(lvl)) + ");\n" + ind + "}\n" + after, ok
	case "catch":
		inner, ok := g.body(lvl+1, inLoop)
		return decl + ind + "try {\n" + ind + "  throw(\"first\");\n" + ind + "} catch e" + fmt.Sprint(lvl) + " {\n" + inner + ind + "  println(\"i" + fmt.Sprint(lvl) + "\");\n" + ind + "}\n" + after, ok
	case "operand":
		// the inner construct sits in a block that is the right operand of two pending infix operations: an exit
		// from inside leaves with operands of the unfinished expression on the operand stack
		inner, ok := g.body(lvl+1, inLoop)
		v := fmt.Sprintf("v%d", lvl)
		return decl + ind + "let " + v + " = 100 - (20 + {\n" + inner + ind + "  println(\"i" + fmt.Sprint(lvl) + "\");\n" + ind + "  3\n" + ind + "});\n" + ind + "println(\"o" + fmt.Sprint(lvl) + "\", " + v + ");\n" + after, ok
	case "call2":
		// two call frames between this level and the inner construct (an exception thrown inside crosses both)
		g.nfn++
		name := fmt.Sprintf("h%d", g.nfn)
		inner, ok := g.body(lvl+1, false)
		if !ok {
			return "", false
		}
		g.helper += "fn " + name + "b(p: bool) -> int {\n  let q = 5;\n" + inner + "  println(\"h-end\", q);\n  return 3;\n}\n" +
			"fn " + name + "(p: bool) -> int {\n  let w = 6;\n  let r = " + name + "b(p);\n  println(\"h-mid\", w, r);\n  return r + 1;\n}\n"
		return decl + ind + "println(\"r\", 500 - " + name + "(p));\n" + after, true
	case "call":
		g.nfn++
		name := fmt.Sprintf("h%d", g.nfn)
		sub := &verifNestGen{slots: nil, exit: g.exit, withLine: g.withLine}
		_ = sub
		inner, ok := g.body(lvl+1, false) // a new function: no enclosing loop
		if !ok {
			return "", false
		}
		g.helper += "fn " + name + "(p: bool) -> int {\n  let q = 5;\n" + inner + "  println(\"h-end\", q);\n  return 3;\n}\n"
		return decl + ind + "println(\"r\", 500 - " + name + "(p));\n" + after, true
	}
	return "", false
}

func (g *verifNestGen) program() (string, bool) {
	inner, ok := g.body(0, false)
	if !ok {
		return "", false
	}
	f := "fn f(p: bool) -> int {\n  println(\"in\");\n  let a0 = 10;\n" + inner + "  println(\"end\", a0);\n  return 1;\n}\n"
	main := "fn main() {\n  println(1000 - f(P));\n  println(2000 - f(false));\n  try { throw(\"z\"); } catch e { println(e.message" + g.lineOf("e") + "); }\n  println(\"done\");\n  throw(\"final\");\n}\n"
	return g.helper + f + main, true
}

// pendingAtExit classifies the program: does the exit statement leave a construct in whose operands it is nested
// (an "operand" slot between the exit and its target)? return: any operand slot in the function of the exit;
// break/continue: an operand slot inside the innermost enclosing loop; throw/fatal unwind through the handler.
func (g *verifNestGen) pendingAtExit() string {
	ek := verifExitKinds[g.exit]
	if ek != "return" && ek != "break" && ek != "continue" {
		return "none"
	}
	for i := len(g.slots) - 1; i >= 0; i-- {
		k := verifSlotKinds[g.slots[i]]
		if k == "call" || k == "call2" {
			break
		}
		if (k == "loop" || k == "while" || k == "for") && ek != "return" {
			break
		}
		if k == "operand" {
			return ek
		}
	}
	return "none"
}

// VerifHarness_Nest: mode 1 (VM vs reference), 16 (tree vs reference), 2, 4.
func VerifHarness_Nest() {
	mode := errors.VerifParam("mode", 1)
	D := errors.VerifParam("D", 2)
	d := errors.VerifNdIntRange("depth", 1, D)
	g := &verifNestGen{exit: errors.VerifNdIntRange("exit", 0, len(verifExitKinds)-1), withLine: true}
	g.exitForm = errors.VerifNdIntRange("exitForm", 0, 1)
	tag := fmt.Sprintf("form%d:", g.exitForm)
	for i := 0; i < d; i++ {
		s := errors.VerifNdIntRange(fmt.Sprintf("slot%d", i), 0, len(verifSlotKinds)-1)
		g.slots = append(g.slots, s)
		tag += verifSlotKinds[s] + ">"
	}
	tag += verifExitKinds[g.exit]
	errors.VerifTag("__nest", tag)
	errors.VerifTag("pending-operands-at-exit", g.pendingAtExit())
	code, ok := g.program()
	if !ok {
		errors.VerifReached("not-in-family")
		return
	}
	p := errors.VerifNdBool("P")
	a := errors.VerifNdInt64("A")
	errors.VerifAssume(a >= -3)
	errors.VerifAssume(a <= 3)
	inputs := []verifInput{{name: "P", kind: 'b', b: p}, {name: "A", kind: 'i', i: a}}
	verifCheckProgramX(mode, code, inputs, true, false)
}

func (g *verifNestGen) lineOf(ident string) string {
	if g.withLine {
		return ", " + ident + ".line"
	}
	return ""
}
