package homescript

import (
	"context"
	"fmt"

	"github.com/smarthome-go/homescript/v3/homescript/analyzer/ast"
	"github.com/smarthome-go/homescript/v3/homescript/compiler"
	herrors "github.com/smarthome-go/homescript/v3/homescript/errors"
	"github.com/smarthome-go/homescript/v3/homescript/runtime"
	vvalue "github.com/smarthome-go/homescript/v3/homescript/runtime/value"
)

// C12 at program level: a rejected cast inside a program is a catchable error
// and later statements are unaffected; an admitted value has the target type.

type verifCastProg struct {
	name string
	code string
	want func(a int64) string // expected output on both back ends (class ok)
}

var verifCastProgs = []verifCastProg{
	{"as-fails-then-continues", "fn main() {\n  let o = new { k: A } as { ? };\n  let x = 41;\n  try {\n    let s = o.get(\"k\").unwrap() as str;\n    println(\"not reached\", s);\n  } catch e {\n    println(\"caught\");\n  }\n  println(x);\n  let n = o.get(\"k\").unwrap() as int;\n  println(n + 1);\n}\n",
		func(a int64) string { return "caught\n41\n" + fmt.Sprint(a+1) + "\n" }},
	{"let-any-fails-then-continues", "fn main() {\n  let o = new { k: A } as { ? };\n  let x = 41;\n  let good: int = o.get(\"k\").unwrap();\n  println(good);\n  try {\n    let bad: str = o.get(\"k\").unwrap();\n    println(\"not reached\", bad);\n  } catch e {\n    println(\"caught\");\n  }\n  println(x);\n}\n",
		func(a int64) string { return fmt.Sprint(a) + "\ncaught\n41\n" }},
	{"scalar-conversions", "fn main() {\n  println(true as int, false as int, 0 as bool, 5 as bool, (3 as float) as int, 2.5 as int);\n  println((A as bool) as int);\n}\n",
		func(a int64) string {
			if a != 0 {
				return "1 0 false true 3 2\n1\n"
			}
			return "1 0 false true 3 2\n0\n"
		}},
	{"into-option", "fn main() {\n  let o = new { k: A } as { ? };\n  let v: ?int = o.get(\"k\").unwrap() as ?int;\n  println(v.unwrap() + 1);\n  try {\n    let w = o.get(\"k\").unwrap() as ?str;\n    println(\"not reached\", w);\n  } catch e {\n    println(\"caught\");\n  }\n}\n",
		func(a int64) string { return fmt.Sprint(a+1) + "\ncaught\n" }},
	{"nested-list", "fn main() {\n  let o = new { l: [A, 2] } as { ? };\n  let l = o.get(\"l\").unwrap() as [int];\n  println(l[0] + l[1]);\n  try {\n    let m = o.get(\"l\").unwrap() as [str];\n    println(\"not reached\", m);\n  } catch e {\n    println(\"caught\");\n  }\n  println(l.len());\n}\n",
		func(a int64) string { return fmt.Sprint(a+2) + "\ncaught\n2\n" }},
	{"partially-dynamic-list", "fn main() {\n  let o = new { l: [A, 2] } as { ? };\n  let anys: [any] = o.get(\"l\").unwrap() as [any];\n  let ints = anys as [int];\n  println(ints[0] + ints[1]);\n  try {\n    let strs = anys as [str];\n    println(\"not reached\", strs);\n  } catch e {\n    println(\"caught\");\n  }\n  println(ints.len());\n}\n",
		func(a int64) string { return fmt.Sprint(a+2) + "\ncaught\n2\n" }},
	{"partially-dynamic-option", "fn main() {\n  let o = new { k: A } as { ? };\n  let any_opt: ?any = o.get(\"k\");\n  let good = any_opt as ?int;\n  println(good.unwrap() + 1);\n  try {\n    let bad = any_opt as ?str;\n    println(\"not reached\", bad);\n  } catch e {\n    println(\"caught\");\n  }\n}\n",
		func(a int64) string { return fmt.Sprint(a+1) + "\ncaught\n" }},
	{"object-as-any-object-leaves-the-object-typed", "fn main() {\n  let o = new { n: A, m: 2 };\n  let a = o as { ? };\n  a.set(\"n\", \"text\");\n  a.set(\"extra\", 1);\n  println(o.n + 1, o.m);\n  println(a.keys().len());\n}\n",
		func(a int64) string { return fmt.Sprint(a+1) + " 2\n3\n" }},
	{"optional-any-into-parameter", "fn want(v: ?int) -> int { v.unwrap() + 1 }\nfn main() {\n  let o = new { s: \"text\", n: A } as { ? };\n  println(want(o->n as ?int));\n  try { println(want(o->s)); } catch e { println(\"caught\"); }\n}\n",
		func(a int64) string { return fmt.Sprint(a+1) + "\ncaught\n" }},
	{"optional-any-into-list-element", "fn main() {\n  let o = new { s: \"text\", n: A } as { ? };\n  try {\n    let l = [?1, o->s];\n    println(l[1].unwrap() + 1);\n  } catch e { println(\"caught\"); }\n  println(A);\n}\n",
		func(a int64) string { return "caught\n" + fmt.Sprint(a) + "\n" }},
	{"optional-any-into-branch-value", "fn main() {\n  let o = new { s: \"text\", n: A } as { ? };\n  try {\n    let y: ?int = if A == A { o->s } else { ?1 };\n    println(y.unwrap() + 1);\n  } catch e { println(\"caught\"); }\n  println(A);\n}\n",
		func(a int64) string { return "caught\n" + fmt.Sprint(a) + "\n" }},
	{"annotated-let-wraps-into-option", "fn main() {\n  let o = new { k: A } as { ? };\n  let v: ?int = o.get(\"k\").unwrap();\n  println(v.unwrap() + 1, v.is_some());\n  let l: [?int] = \"[1, null]\".parse_json();\n  println(l[0].unwrap() + A, l[1].is_none());\n}\n",
		func(a int64) string { return fmt.Sprint(a+1) + " true\n" + fmt.Sprint(1+a) + " true\n" }},
	{"annotated-let-admits-object-as-any-object", "fn main() {\n  let src = new { inner: new { n: A } } as { ? };\n  let ao: { ? } = src.get(\"inner\").unwrap();\n  println(ao.keys().len());\n  let n: ?int = ao->n;\n  println(n.unwrap() + 1);\n  let r: { rows: [{ ? }] } = \"{\\\"rows\\\": [{\\\"x\\\": 2}]}\".parse_json();\n  println(r.rows[0].keys().len(), (r.rows[0]~>x as int) + A);\n}\n",
		func(a int64) string { return "1\n" + fmt.Sprint(a+1) + "\n1 " + fmt.Sprint(2+a) + "\n" }},
	{"parse-json", "fn main() {\n  let r = \"{\\\"val\\\": 42}\".parse_json() as { val: int };\n  println(r.val + A);\n  try {\n    let s = \"{\\\"val\\\": 42}\".parse_json() as { val: str };\n    println(\"not reached\", s);\n  } catch e {\n    println(\"caught\");\n  }\n  println(\"end\");\n}\n",
		func(a int64) string { return fmt.Sprint(42+a) + "\ncaught\nend\n" }},
}

// The offending path must be named by the cast error (asserted on the VM, whose errors carry a path).
var verifCastPathProgs = []struct{ name, code, path string }{
	{"list-element", "fn main() {\n  let o = new { l: [1, 2] } as { ? };\n  try {\n    let m = o.get(\"l\").unwrap() as [str];\n    println(\"not reached\", m);\n  } catch e {\n    println(e.message);\n  }\n}\n", "[0]"},
	{"object-field", "fn main() {\n  let o = new { inner: new { val: 1 } } as { ? };\n  try {\n    let m = o.get(\"inner\").unwrap() as { val: str };\n    println(\"not reached\", m);\n  } catch e {\n    println(e.message);\n  }\n}\n", ".val"},
	{"element-of-element-of-field", "fn main() {\n  try {\n    let m = \"{\\\"rows\\\": [[1, 2], [3, \\\"x\\\"]]}\".parse_json() as { rows: [[int]] };\n    println(\"not reached\", m);\n  } catch e {\n    println(e.message);\n  }\n}\n", "`.rows[1][1]`"},
	{"field-of-field-of-element", "fn main() {\n  try {\n    let m = \"[{\\\"inner\\\": {\\\"val\\\": 1}}, {\\\"inner\\\": {\\\"val\\\": \\\"s\\\"}}]\".parse_json() as [{ inner: { val: int } }];\n    println(\"not reached\", m);\n  } catch e {\n    println(e.message);\n  }\n}\n", "`[1].inner.val`"},
	{"second-element", "fn main() {\n  let o = new { l: [?1, ?2] } as { ? };\n  try {\n    let m = o.get(\"l\").unwrap() as [?str];\n    println(\"not reached\", m);\n  } catch e {\n    println(e.message);\n  }\n}\n", "[0]"},
}

func VerifHarness_CastPath() {
	t := verifCastPathProgs[herrors.VerifNdIntRange("template", 0, len(verifCastPathProgs)-1)]
	herrors.VerifTag("template", t.name)
	an := verifAnalyze(t.code, nil, nil, true)
	if an.hasError {
		herrors.VerifTag("diag", an.describe())
		herrors.VerifAssert("accepted", false)
		return
	}
	herrors.VerifTag("__ignore_panic", "C02")
	backend := herrors.VerifNdIntRange("backend", 0, 1)
	herrors.VerifTag("backend", []string{"vm", "tree"}[backend])
	var o verifOutcome
	if backend == 0 {
		o = verifRunVM(an, nil, nil, verifLimits, newVerifCtx())
	} else {
		o = verifRunTree(an, nil, nil, 100, newVerifCtx())
	}
	herrors.VerifReached("ran")
	herrors.VerifAssert("cast-error-caught", o.class == "ok" && !verifContains(o.out, "not reached"))
	herrors.VerifAssert("cast-error-names-offending-path", verifContains(o.out, t.path))
}

func VerifHarness_CastPrograms() {
	t := verifCastProgs[herrors.VerifNdIntRange("template", 0, len(verifCastProgs)-1)]
	backend := herrors.VerifNdIntRange("backend", 0, 1)
	herrors.VerifTag("template", t.name)
	herrors.VerifTag("backend", []string{"vm", "tree"}[backend])
	a := herrors.VerifNdInt64("A")
	inputs := []verifInput{{name: "A", kind: 'i', i: a}}
	an := verifAnalyze(t.code, nil, inputs, true)
	if an.hasError {
		herrors.VerifTag("diag", an.describe())
		herrors.VerifAssert("accepted", false)
		return
	}
	// a crash here means that a value reached an operation its static type rules out: the subject of this property
	var o verifOutcome
	p, pmsg := herrors.VerifPanics(func() {
		if backend == 0 {
			o = verifRunVM(an, nil, inputs, verifLimits, newVerifCtx())
		} else {
			o = verifRunTree(an, nil, inputs, 100, newVerifCtx())
		}
	})
	if p {
		herrors.VerifTag("panic", herrors.VerifNorm(pmsg))
	}
	herrors.VerifAssert("values-keep-their-static-types:no-crash", !p)
	if p {
		return
	}
	herrors.VerifReached("ran")
	herrors.VerifAssert("rejected-cast-is-catchable-and-run-completes", o.class == "ok")
	if o.class == "ok" {
		herrors.VerifAssert("later-statements-unaffected", o.out == t.want(a))
	}
}

// ---- host boundary ----

// VerifHarness_HostBoundary: SpawnSync refuses (documented panic) exactly the
// argument values that do not conform to the declared parameter type, and the
// return-value assertion refuses exactly non-conforming results.
func VerifHarness_HostBoundary() {
	d := herrors.VerifParam("depth", 1)
	v := cvGenValue(d, "v")
	t := cvGenType(0, "t") // declared parameter type: a leaf type
	cls := string(v.k) + " for " + string(t.k)
	herrors.VerifTag("class", cls)
	admitted, _ := cvAdmit(v, t, false)
	code := "fn f(a: int) -> int { return 1; }\nfn main() { }\n"
	an := verifAnalyze(code, nil, nil, true)
	if an.hasError {
		herrors.VerifInconclusive("host boundary program rejected")
	}
	comp := compiler.NewCompiler(an.modules, verifFile)
	compiled, err := comp.Compile()
	if err != nil {
		herrors.VerifInconclusive("compile error")
	}
	out := ""
	var triggers []string
	exec := verifVmExec{out: &out, triggers: &triggers}
	ctx := newVerifCtx()
	var cctx context.Context = ctx
	var cancel context.CancelFunc = ctx.cancel
	vm := runtime.NewVM(compiled, vvalue.Executor(exec), &cctx, &cancel, verifVmScope(nil), verifLimits)
	inv := runtime.FunctionInvocation{
		Function: "f",
		Args:     []vvalue.Value{*v.vm()},
		FunctionSignature: runtime.FunctionInvocationSignature{
			Params:     []runtime.FunctionInvocationSignatureParam{{Ident: "a", Type: t.ast()}},
			ReturnType: ast.NewIntType(herrors.Span{}),
		},
	}
	refused, _ := herrors.VerifPanics(func() { vm.SpawnSync(inv, nil, nil) })
	herrors.VerifReached("called")
	if admitted {
		herrors.VerifAssert("conforming-argument-accepted", !refused)
	} else {
		herrors.VerifAssert("non-conforming-argument-refused", refused)
	}
}
