package errors

import (
	"runtime"
	"time"
)

func runtimeGosched()          { time.Sleep(2 * time.Millisecond); runtime.Gosched() }
func runtimeNumGoroutine() int { return runtime.NumGoroutine() }
