package errors

import (
	"fmt"
	"math/rand"
	"strconv"
	"strings"
)

// verifScriptedSource replays the random draws recorded in a replay file: draw i is stored as
// "rand_i" = "<kind>:<value>:<n>" (kind i = Intn(n) returned value, s = Shuffle step int31n(n) returned value).
type verifScriptedSource struct{ i int }

func (s *verifScriptedSource) Seed(int64) {}
func (s *verifScriptedSource) Int63() int64 {
	spec := verifLoad().Vals[fmt.Sprintf("rand_%d", s.i)]
	s.i++
	parts := strings.Split(spec, ":")
	if len(parts) != 3 {
		return 0
	}
	v, _ := strconv.ParseInt(parts[1], 10, 64)
	n, _ := strconv.ParseInt(parts[2], 10, 64)
	switch parts[0] {
	case "i": // Intn(n) -> Int31n: Int31() = Int63()>>32, result v % n (or v & (n-1))
		return v << 32
	case "s": // Shuffle -> int31n: u = uint32(Int63()>>31); result (u*n)>>32
		u := ((v << 32) + (1 << 31)) / n
		return u << 31
	}
	return 0
}

// VerifRandSource: engine: every draw through rand.New(src) is a fork variable; natively: replays the model's draws.
func VerifRandSource() rand.Source { return &verifScriptedSource{} }
