package errors

// Harness API for the solver-based checks (see /verif/DESIGN.md §1.2).
// This file is never part of /repo: it is presented to go/packages and to
// `go test` through an overlay. Inside the symbolic engine every function
// below is intercepted by name and its body is not executed; natively (replay
// of a counterexample) the bodies read the values of the solver's model from
// the JSON file named by $VERIF_REPLAY.

import (
	"encoding/json"
	"fmt"
	"math"
	"os"
	"strconv"
	"strings"
)

type verifReplayFile struct {
	Vals   map[string]string `json:"vals"`
	Params map[string]int    `json:"params"`
}

var verifReplay *verifReplayFile

type verifAssumeFailed struct{}

func verifLoad() *verifReplayFile {
	if verifReplay != nil {
		return verifReplay
	}
	verifReplay = &verifReplayFile{Vals: map[string]string{}, Params: map[string]int{}}
	if p := os.Getenv("VERIF_REPLAY"); p != "" {
		b, err := os.ReadFile(p)
		if err != nil {
			panic("VERIF_REPLAY: " + err.Error())
		}
		if err := json.Unmarshal(b, verifReplay); err != nil {
			panic("VERIF_REPLAY: " + err.Error())
		}
	}
	return verifReplay
}

func verifInt(name string) int64 {
	s, ok := verifLoad().Vals[name]
	if !ok {
		return 0
	}
	if v, err := strconv.ParseInt(s, 10, 64); err == nil {
		return v
	}
	if v, err := strconv.ParseUint(s, 10, 64); err == nil {
		return int64(v)
	}
	return 0
}

func VerifNdInt64(name string) int64 { return verifInt(name) }
func VerifNdInt(name string) int     { return int(verifInt(name)) }
func VerifNdUint(name string) uint   { return uint(verifInt(name)) }
func VerifNdUint64(name string) uint64 {
	return uint64(verifInt(name))
}
func VerifNdRune(name string) rune { return rune(verifInt(name)) }
func VerifNdByte(name string) byte { return byte(verifInt(name)) }
func VerifNdBool(name string) bool { return verifLoad().Vals[name] == "true" }
func VerifNdFloat64(name string) float64 {
	s := verifLoad().Vals[name]
	if strings.HasPrefix(s, "f:") {
		b, _ := strconv.ParseUint(s[2:], 16, 64)
		return math.Float64frombits(b)
	}
	return 0
}
func VerifNdIntRange(name string, lo, hi int) int {
	if _, ok := verifLoad().Vals[name]; !ok {
		return lo
	}
	return int(verifInt(name))
}

// VerifParam returns a bound chosen by the check driver (tier dependent).
func VerifParam(name string, def int) int {
	if v, ok := verifLoad().Params[name]; ok {
		return v
	}
	return def
}

func VerifAssume(c bool) {
	if !c {
		fmt.Println("VERIF-ASSUME-FALSE")
		panic(verifAssumeFailed{})
	}
}

func VerifAssert(label string, c bool) {
	if !c {
		fmt.Printf("VERIF-ASSERT-FAIL %s\n", label)
	}
}

func VerifTag(key string, v string) {}
func VerifUntag(key string)         {}
func VerifReached(label string)     {}
func VerifInconclusive(msg string) {
	fmt.Println("VERIF-INCONCLUSIVE " + msg)
	panic(verifAssumeFailed{})
}
func VerifSteps() int        { return 0 }
func VerifIsSymbolic() bool  { return false }

// VerifPanics runs f and reports whether it panicked (Go panic of any kind).
func VerifPanics(f func()) (panicked bool, msg string) {
	defer func() {
		if r := recover(); r != nil {
			if _, ok := r.(verifAssumeFailed); ok {
				panic(r)
			}
			panicked = true
			msg = fmt.Sprint(r)
		}
	}()
	f()
	return
}

// VerifNorm replaces digit runs by N so that panic messages form classes.
func VerifNorm(msg string) string {
	var sb []byte
	in := false
	for i := 0; i < len(msg); i++ {
		c := msg[i]
		if c >= '0' && c <= '9' {
			if !in {
				sb = append(sb, 'N')
			}
			in = true
			continue
		}
		in = false
		sb = append(sb, c)
	}
	if len(sb) > 120 {
		sb = sb[:120]
	}
	return string(sb)
}

// VerifReplayMain wraps a native replay run.
func VerifReplayMain(f func()) {
	defer func() {
		if r := recover(); r != nil {
			if _, ok := r.(verifAssumeFailed); ok {
				fmt.Println("VERIF-REPLAY-INVALID")
				return
			}
			fmt.Printf("VERIF-PANIC %v\n", r)
			panic(r)
		}
	}()
	f()
	fmt.Println("VERIF-REPLAY-DONE")
}

// Non-forking boolean connectives (plain && / || natively; single terms in the engine).
func VerifAnd(a, b bool) bool     { return a && b }
func VerifOr(a, b bool) bool      { return a || b }
func VerifImplies(a, b bool) bool { return !a || b }

// VerifPanicSite names the innermost repo function in which the last panic caught by VerifPanics
// was raised (engine only; used to give violations a stable class). Natively "".
func VerifPanicSite() string { return "" }

// VerifLiveGoroutines: goroutines of the program under test that have not finished
// (engine: interpreted goroutines other than the caller; natively: runtime.NumGoroutine after a short settle time).
func VerifLiveGoroutines() int {
	for i := 0; i < 20; i++ {
		runtimeGosched()
	}
	return runtimeNumGoroutine()
}

// VerifStable states that the value computed under this label must be the same on every
// execution (every map iteration order, every schedule). Engine: the first path's value is the
// reference for all later paths of the run. Natively the value is printed; the replay gate runs
// the harness repeatedly and looks for two different values.
func VerifStable(label string, value string) {
	fmt.Printf("VERIF-STABLE %s=%q\n", label, value)
}
