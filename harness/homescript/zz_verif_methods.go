package homescript

import (
	"fmt"

	"github.com/smarthome-go/homescript/v3/homescript/errors"
)

// Method programs (C01 / C04 / C02): small programs built around the builtin members of options, any-objects (incl.
// the -> and ~> member operators), lists, strings, objects and numbers, with unconstrained int inputs A, B. The output
// is prescribed by the language definition and must come out of both back ends.
var verifMethodProgs = []struct {
	name, code string
	want       func(a, b int64) string
}{
	{"option-methods", "fn main() {\n  let s: ?int = ?A;\n  let n: ?int = none;\n  println(s.is_some(), s.is_none(), n.is_some(), n.is_none());\n  println(s.unwrap() + 1, n.unwrap_or(B), s.unwrap_or(B));\n  try { println(n.unwrap()); } catch e { println(\"caught-unwrap\"); }\n  println(s.expect(\"fine\") - 1);\n}\n",
		func(a, b int64) string {
			return "true false false true\n" + fmt.Sprint(a+1, b, a) + "\ncaught-unwrap\n" + fmt.Sprint(a-1) + "\n"
		}},
	{"any-object-members", "fn main() {\n  let o = new { k: A, s: \"text\" } as { ? };\n  let v: ?int = o->k;\n  println(v.unwrap() + 1);\n  let m: ?int = o->missing;\n  println(m.is_none());\n  let w = o~>k as int;\n  println(w - 1);\n  try { println(o~>missing as int); } catch e { println(\"caught-missing\"); }\n  try { println(o~>s as int); } catch e { println(\"caught-cast\"); }\n  o.set(\"k\", B);\n  println(o.get(\"k\").unwrap() as int, o.keys().len(), o.get(\"nothere\").is_none());\n}\n",
		func(a, b int64) string {
			return fmt.Sprint(a+1) + "\ntrue\n" + fmt.Sprint(a-1) + "\ncaught-missing\ncaught-cast\n" + fmt.Sprint(b) + " 2 true\n"
		}},
	{"list-methods", "fn main() {\n  let l = [A, B];\n  l.push(3);\n  l.push_front(4);\n  println(l.len(), l[0], l.last().unwrap(), l.contains(3), l.contains(5000));\n  println(l.pop().unwrap(), l.pop_front().unwrap(), l.len());\n  l.insert(1, 7);\n  println(l[1], l.len());\n  l.remove(0);\n  println(l[0], l.len());\n  let e: [int] = [];\n  println(e.pop().is_none(), e.last().is_none(), e.len());\n  let c = [1, 2];\n  c.concat([A]);\n  println(c.len(), c[2]);\n  println([\"a\", \"b\"].join(\"-\"));\n}\n",
		func(a, b int64) string {
			return "4 4 3 true false\n3 4 2\n7 3\n7 2\ntrue true 0\n" + "3 " + fmt.Sprint(a) + "\na-b\n"
		}},
	{"string-methods", "fn main() {\n  let s = \"Hello World\";\n  println(s.len(), s.to_lower(), s.to_upper());\n  println(s.replace(\"World\", \"There\"), s.contains(\"lo W\"), s.starts_with(\"Hell\"), s.starts_with(\"World\"));\n  println(s.split(\" \").len(), s.split(\" \")[1], \"ab\".repeat(3));\n  println(\"42\".parse_int() + A, \"1.5\".parse_float() * 2.0, \"true\".parse_bool());\n  try { println(\"x1\".parse_int()); } catch e { println(\"caught-parse\"); }\n  try { println(\"ab\".repeat(0 - 1)); } catch e { println(\"caught-repeat\"); }\n}\n",
		func(a, b int64) string {
			return "11 hello world HELLO WORLD\nHello There true true false\n2 World ababab\n" + fmt.Sprint(42+a) + " 3 true\ncaught-parse\ncaught-repeat\n"
		}},
	{"number-and-range-methods", "fn main() {\n  println(A.to_string() + \"!\", (A as float).is_int(), 2.5.is_int(), 2.7.trunc(), 2.5.round(), 2.4.round());\n  let r = 2..5;\n  println(r.start, r.end, r.diff(), r.rev().start);\n  let n = 0;\n  for i in 3.to_range() { n += i; }\n  println(n);\n}\n",
		func(a, b int64) string { return fmt.Sprint(a) + "! true false 2 3 2\n2 5 3 5\n3\n" }},
	{"object-methods", "fn main() {\n  let o = new { x: A, name: \"n\" };\n  println(o.keys().len(), o.x + 1);\n  o.x = B;\n  println(o.x, o.keys().contains(\"name\"));\n  let p = o;\n  p.name = \"m\";\n  println(o.name);\n}\n",
		func(a, b int64) string { return "2 " + fmt.Sprint(a+1) + "\n" + fmt.Sprint(b) + " true\nm\n" }},
	{"match-on-values", "fn kind(n: int) -> str {\n  match n {\n    0 => \"zero\",\n    1 | 2 | 3 => \"small\",\n    _ => \"big\",\n  }\n}\nfn main() {\n  println(kind(0), kind(2), kind(3), kind(4), kind(0 - 1));\n  let s = match \"b\" { \"a\" => 1, \"b\" => 2, _ => 3 };\n  let t = match true { false => 10, true => 20, _ => 30 };\n  let u = match 2.5 { 2.5 => 100, _ => 200 };\n  println(s, t, u);\n  match A { 7 => println(\"seven\"), _ => println(\"other\") }\n}\n",
		func(a, b int64) string {
			last := "other\n"
			if a == 7 {
				last = "seven\n"
			}
			return "zero small small big big\n2 20 100\n" + last
		}},
	{"try-catch-values", "fn risky(n: int) -> int {\n  if n > 2 { throw(\"too big: \" + n.to_string()); }\n  n * 2\n}\nfn main() {\n  let a = try { risky(1) } catch e { 0 - 1 };\n  let b = try { risky(5) } catch e { println(e.message); 0 - 1 };\n  println(a, b);\n  try {\n    try { risky(9); } catch inner { throw(\"again: \" + inner.message); }\n  } catch outer { println(outer.message); }\n  let c = try { try { risky(7) } catch e { risky(8) } } catch f { 77 };\n  println(c);\n}\n",
		func(a, b int64) string { return "too big: 5\n2 -1\nagain: too big: 9\n77\n" }},
}

func VerifHarness_MethodPrograms() {
	mode := errors.VerifParam("mode", 1)
	t := verifMethodProgs[errors.VerifNdIntRange("template", 0, len(verifMethodProgs)-1)]
	errors.VerifTag("template", t.name)
	a, b := errors.VerifNdInt64("A"), errors.VerifNdInt64("B")
	errors.VerifAssume(a >= -1000 && a <= 1000)
	errors.VerifAssume(b >= -1000 && b <= 1000)
	inputs := []verifInput{{name: "A", kind: 'i', i: a}, {name: "B", kind: 'i', i: b}}
	an := verifAnalyze(t.code, nil, inputs, true)
	if an.hasError {
		errors.VerifTag("diag", an.describe())
		errors.VerifAssert("accepted", false)
		return
	}
	errors.VerifReached("accepted")
	backend := 0
	if mode != 1 {
		backend = errors.VerifNdIntRange("backend", 0, 1)
	}
	errors.VerifTag("backend", []string{"vm", "tree"}[backend])
	if mode != 2 {
		errors.VerifTag("__ignore_panic", "C02")
	}
	var o verifOutcome
	panicked, msg := errors.VerifPanics(func() {
		if backend == 0 {
			o = verifRunVM(an, nil, inputs, verifLimits, newVerifCtx())
		} else {
			o = verifRunTree(an, nil, inputs, 100, newVerifCtx())
		}
	})
	if mode == 2 {
		if panicked {
			errors.VerifTag("panic", errors.VerifNorm(msg))
		}
		errors.VerifAssert("method-program-never-crashes-the-host", !panicked)
		errors.VerifReached("ran")
		return
	}
	if panicked {
		errors.VerifReached("panicked-skipped")
		return
	}
	errors.VerifReached("ran")
	errors.VerifAssert("run-completes", o.class == "ok")
	errors.VerifAssert("output-is-the-prescribed-one", o.out == t.want(a, b))
}
