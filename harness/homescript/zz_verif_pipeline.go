package homescript

import (
	"fmt"

	"github.com/smarthome-go/homescript/v3/homescript/errors"
)

// VerifHarness_PipeSmoke: translator validation on a concrete program plus one symbolic input.
func VerifHarness_PipeSmoke() {
	a := errors.VerifNdInt64("A")
	inputs := []verifInput{{name: "A", kind: 'i', i: a}}
	code := "fn main() {\n  let x = A + 1;\n  println(x);\n  if A > 5 { println(\"big\"); } else { println(\"small\"); }\n}\n"
	an := verifAnalyze(code, nil, inputs, true)
	errors.VerifAssert("accepted", !an.hasError)
	if an.hasError {
		errors.VerifTag("diag", an.describe())
		return
	}
	vm := verifRunVM(an, nil, inputs, verifLimits, newVerifCtx())
	tr := verifRunTree(an, nil, inputs, 100, newVerifCtx())
	errors.VerifReached("ran")
	word := "small"
	if a > 5 {
		word = "big"
	}
	want := fmt.Sprint(a+1) + "\n" + word + "\n"
	errors.VerifAssert("vm-class", vm.class == "ok")
	errors.VerifAssert("vm-out", vm.out == want)
	errors.VerifAssert("tree-class", tr.class == "ok")
	errors.VerifAssert("tree-out", tr.out == want)
}
