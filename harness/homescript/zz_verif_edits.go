package homescript

import (
	"fmt"

	"github.com/smarthome-go/homescript/v3/homescript/analyzer"
	"github.com/smarthome-go/homescript/v3/homescript/errors"
	"github.com/smarthome-go/homescript/v3/homescript/lexer"
	"github.com/smarthome-go/homescript/v3/homescript/parser"
)

// C05.3: single-token edits / deletions / truncations of seed programs go
// through Parse and (when there is no hard syntax error) Analyze: no panic,
// bounded steps. The replacement token's KIND is a solver variable.

var verifSeeds = []string{
	"fn main() { let a = 1; println(a + 2); }",
	"let g = 5; fn f(x: int) -> int { return x * g; } fn main() { println(f(1)); }",
	"fn main() { let i = 0; while i < 3 { i += 1; if i == 2 { continue; } } loop { break; } for x in 0..2 { println(x); } }",
	"fn main() { let v = match 1 { 1 => 2, _ => 3, }; let w = try { v } catch e { 0 }; println(v, w); }",
	"fn w(a: int) { println(a); } fn main() { spawn w(1); let f = fn(x: int) -> int { x }; println(f(2)); }",
	"import f from m; fn main() { println(f(1)); }",
	"type T = { a: int }; fn main() { let o: T = new { a: 1 }; o.a = 2; let l = [1, 2]; l.push(3); println(o.a, l[0] as float, ?1); }",
	"fn main() { let o = new { k: 1 } as { ? }; let x: ?int = none; println(o.get(\"k\").unwrap(), x); }",
}

var verifSeedModules = map[string]string{"m": "pub fn f(a: int) -> int { return a + 1; }"}

func VerifHarness_EditAnalyze() {
	seed := errors.VerifNdIntRange("seed", 0, len(verifSeeds)-1)
	toks := lexer.VerifLexAll(verifSeeds[seed])
	mode := errors.VerifNdIntRange("mode", 0, 2) // 0 replace, 1 delete, 2 truncate
	pos := errors.VerifNdIntRange("pos", 0, len(toks)-1)
	errors.VerifTag("seed", fmt.Sprint(seed))
	errors.VerifTag("__edit", []string{"replace", "delete", "truncate"}[mode]+"@"+fmt.Sprint(pos))
	var script []lexer.VerifStubTok
	switch mode {
	case 0:
		k := errors.VerifNdByte("kind")
		errors.VerifAssume(k <= lexer.VerifMaxKind)
		errors.VerifAssume(k > uint8(lexer.EOF))
		kind := lexer.TokenKind(k)
		script = append(script, toks[:pos]...)
		script = append(script, lexer.VerifStubTok{Kind: kind, Value: lexer.VerifValueFor(kind, "id")})
		script = append(script, toks[pos+1:]...)
	case 1:
		script = append(script, toks[:pos]...)
		script = append(script, toks[pos+1:]...)
	case 2:
		script = append(script, toks[:pos]...)
	}
	host := verifHost{modules: verifSeedModules}
	scope := verifAnalyzerScope(nil)
	panicked, msg := errors.VerifPanics(func() {
		if errors.VerifIsSymbolic() {
			lexer.VerifStubSet(script, false)
			p := parser.NewParser(lexer.NewLexer("", lexer.VerifStubFile), lexer.VerifStubFile)
			tree, _, hard := p.Parse()
			if hard != nil {
				errors.VerifReached("syntax-error")
				return
			}
			a := analyzer.NewAnalyzer(host, scope)
			a.Analyze(tree, true)
			errors.VerifReached("analyzed")
		} else {
			text := lexer.VerifRender(script)
			fmt.Printf("VERIF-DEBUG text: %q\n", text)
			Analyze(InputProgram{ProgramText: text, Filename: lexer.VerifStubFile}, scope, host, true)
		}
	})
	if panicked {
		errors.VerifUntag("seed")
		errors.VerifTag("panic", errors.VerifNorm(msg))
		errors.VerifTag("site", errors.VerifPanicSite())
	}
	errors.VerifAssert("no-panic", !panicked)
	errors.VerifReached("done")
}
