package homescript

// Host environment for pipeline harnesses: analyzer HostProvider, VM Executor,
// tree-interpreter Executor, a context the harness controls, and drivers that
// run one program text through parser -> analyzer -> compiler -> VM and through
// the tree-walking interpreter. Everything here is ordinary Go executed both
// by the symbolic engine and natively during replay.

import (
	goruntime "runtime"
	"context"
	"fmt"
	"strings"
	"sync"
	"time"

	"github.com/smarthome-go/homescript/v3/homescript/analyzer"
	"github.com/smarthome-go/homescript/v3/homescript/analyzer/ast"
	"github.com/smarthome-go/homescript/v3/homescript/compiler"
	"github.com/smarthome-go/homescript/v3/homescript/diagnostic"
	herrors "github.com/smarthome-go/homescript/v3/homescript/errors"
	"github.com/smarthome-go/homescript/v3/homescript/interpreter"
	ivalue "github.com/smarthome-go/homescript/v3/homescript/interpreter/value"
	pAst "github.com/smarthome-go/homescript/v3/homescript/parser/ast"
	"github.com/smarthome-go/homescript/v3/homescript/runtime"
	vvalue "github.com/smarthome-go/homescript/v3/homescript/runtime/value"
)

// ---- context under harness control ----

type verifCtx struct {
	mu        sync.Mutex
	done      chan struct{}
	cancelled bool
	polls     int
	cancelAt  int // poll number at which Done becomes ready (<0: never)
}

func newVerifCtx() *verifCtx { return &verifCtx{done: make(chan struct{}), cancelAt: -1} }

func (c *verifCtx) Deadline() (time.Time, bool) { return time.Time{}, false }
func (c *verifCtx) Done() <-chan struct{} {
	c.mu.Lock()
	c.polls++
	flip := c.cancelAt >= 0 && c.polls > c.cancelAt
	c.mu.Unlock()
	if flip {
		c.cancel()
	}
	return c.done
}
func (c *verifCtx) Err() error {
	c.mu.Lock()
	defer c.mu.Unlock()
	if c.cancelled {
		return context.Canceled
	}
	return nil
}
func (c *verifCtx) Value(key any) any { return nil }
func (c *verifCtx) cancel() {
	c.mu.Lock()
	defer c.mu.Unlock()
	if !c.cancelled {
		c.cancelled = true
		close(c.done)
	}
}

// ---- analyzer host ----

type verifHost struct {
	modules map[string]string
}

// GetBuiltinImport: the model host offers two trigger functions and one template (the latter is the one of the
// repository's own testing host):
//   import trigger minute from triggers;   trigger fn (minutes: int),           callback (elapsed: int),            `at`
//   import trigger message from triggers;  trigger fn (topic: str, qos: int),   callback (topic: str, payload: str), `on`
//   import templ FooFeature from templates; methods dim(percent: int) -> bool, set_temp(celsius: float) -> null,
//                                           capabilities light (dim) / temperature (set_temp), mutually exclusive
func (h verifHost) GetBuiltinImport(moduleName string, valueName string, span herrors.Span, kind pAst.IMPORT_KIND) (analyzer.BuiltinImport, bool, bool) {
	fnType := func(ret ast.Type, params ...ast.FunctionTypeParam) ast.FunctionType {
		return ast.NewFunctionType(ast.NewNormalFunctionTypeParamKind(params), span, ret, span).(ast.FunctionType)
	}
	param := func(name string, t ast.Type) ast.FunctionTypeParam {
		return ast.NewFunctionTypeParam(pAst.NewSpannedIdent(name, span), t, nil)
	}
	switch moduleName {
	case "triggers":
		if kind != pAst.IMPORT_KIND_TRIGGER {
			return analyzer.BuiltinImport{}, true, false
		}
		switch valueName {
		case "minute":
			return analyzer.BuiltinImport{Trigger: &analyzer.TriggerFunction{
				TriggerFnType:  fnType(ast.NewNullType(span), param("minutes", ast.NewIntType(span))),
				CallbackFnType: fnType(ast.NewNullType(span), param("elapsed", ast.NewIntType(span))),
				Connective:     pAst.AtTriggerDispatchKeyword,
				ImportedAt:     span,
			}}, true, true
		case "message":
			return analyzer.BuiltinImport{Trigger: &analyzer.TriggerFunction{
				TriggerFnType:  fnType(ast.NewNullType(span), param("topic", ast.NewStringType(span)), param("qos", ast.NewIntType(span))),
				CallbackFnType: fnType(ast.NewNullType(span), param("topic", ast.NewStringType(span)), param("payload", ast.NewStringType(span))),
				Connective:     pAst.OnTriggerDispatchKeyword,
				ImportedAt:     span,
			}}, true, true
		}
		return analyzer.BuiltinImport{}, true, false
	case "templates":
		return TestingAnalyzerHost{IsInvokedInTests: true}.GetBuiltinImport(moduleName, valueName, span, kind)
	}
	return analyzer.BuiltinImport{}, false, false
}
func (h verifHost) ResolveCodeModule(moduleName string) (string, bool, error) {
	code, ok := h.modules[moduleName]
	return code, ok, nil
}
func (h verifHost) PostValidationHook(map[string]ast.AnalyzedProgram, string, *analyzer.Analyzer, bool) []diagnostic.Diagnostic {
	return nil
}
func (h verifHost) GetKnownObjectTypeFieldAnnotations() []string { return nil }

// ---- VM executor ----

type verifVmExec struct {
	out      *string
	triggers *[]string
	modules  map[string]string
}

func (e verifVmExec) LoadSingleton(singletonIdent, moduleName string) (vvalue.Value, bool, error) {
	return nil, false, nil
}
func (e verifVmExec) Free() error { return nil }
func (e verifVmExec) GetBuiltinImport(moduleName string, toImport string) (vvalue.Value, bool) {
	return nil, false
}
func (e verifVmExec) ResolveModuleCode(moduleName string) (string, bool, error) {
	code, ok := e.modules[moduleName]
	return code, ok, nil
}
func (e verifVmExec) WriteStringTo(input string) error {
	*e.out += input
	return nil
}
func (e verifVmExec) RegisterTrigger(callback string, trigger string, span herrors.Span, args []vvalue.Value) error {
	s := callback + "@" + trigger + "("
	for i, a := range args {
		d, _ := a.Display()
		if i > 0 {
			s += ","
		}
		s += d
	}
	*e.triggers = append(*e.triggers, s+")")
	return nil
}

func verifVmPrint(newline bool) vvalue.Value {
	return *vvalue.NewValueBuiltinFunction(func(executor vvalue.Executor, cancelCtx *context.Context, span herrors.Span, args ...vvalue.Value) (*vvalue.Value, *vvalue.VmInterrupt) {
		out := ""
		for i, arg := range args {
			disp, intr := arg.Display()
			if intr != nil {
				return nil, intr
			}
			if i > 0 {
				out += " "
			}
			out += disp
		}
		if newline {
			out += "\n"
		}
		executor.WriteStringTo(out)
		return vvalue.NewValueNull(), nil
	})
}

// ---- tree interpreter executor ----

type verifTreeExec struct {
	out     *string
	modules map[string]string
}

func (e verifTreeExec) GetBuiltinImport(moduleName string, toImport string) (ivalue.Value, bool) {
	// trigger functions and templates have no run-time value; a host that offers them to the analyzer answers the
	// interpreter's import with a placeholder
	if moduleName == "triggers" || moduleName == "templates" {
		return *ivalue.NewValueNull(), true
	}
	return nil, false
}
func (e verifTreeExec) ResolveModuleCode(moduleName string) (string, bool, error) {
	code, ok := e.modules[moduleName]
	return code, ok, nil
}
func (e verifTreeExec) WriteStringTo(input string) error {
	*e.out += input
	return nil
}
func (e verifTreeExec) GetUser() string { return "verif" }
func (e verifTreeExec) LoadSingleton(ident string, typ ast.Type) (*ivalue.Value, bool, *ivalue.Interrupt) {
	return nil, false, nil
}

func verifTreePrint(newline bool) ivalue.Value {
	return *ivalue.NewValueBuiltinFunction(func(executor ivalue.Executor, cancelCtx *context.Context, span herrors.Span, args ...ivalue.Value) (*ivalue.Value, *ivalue.Interrupt) {
		out := ""
		for i, arg := range args {
			disp, intr := arg.Display()
			if intr != nil {
				return nil, intr
			}
			if i > 0 {
				out += " "
			}
			out += disp
		}
		if newline {
			out += "\n"
		}
		executor.WriteStringTo(out)
		return ivalue.NewValueNull(), nil
	})
}

// pause(): a host function that blocks until the run is cancelled, polling the cancellation context the way the
// repository's own `time.sleep` does, and then hands back the termination interrupt.
func verifVmPause() vvalue.Value {
	return *vvalue.NewValueBuiltinFunction(func(executor vvalue.Executor, cancelCtx *context.Context, span herrors.Span, args ...vvalue.Value) (*vvalue.Value, *vvalue.VmInterrupt) {
		for {
			if i := checkCancelationVM(cancelCtx, span); i != nil {
				return nil, i
			}
			goruntime.Gosched()
		}
	})
}

func verifTreePause() ivalue.Value {
	return *ivalue.NewValueBuiltinFunction(func(executor ivalue.Executor, cancelCtx *context.Context, span herrors.Span, args ...ivalue.Value) (*ivalue.Value, *ivalue.Interrupt) {
		for {
			if i := checkCancelationTree(cancelCtx, span); i != nil {
				return nil, i
			}
			goruntime.Gosched()
		}
	})
}

// ---- inputs ----

// verifInput describes host-provided globals of a program.
type verifInput struct {
	name string
	kind byte // 'i' int, 'f' float, 'b' bool, 's' string
	i    int64
	f    float64
	b    bool
	s    string
}

func verifPrintType() ast.Type {
	return ast.NewFunctionType(
		ast.NewVarArgsFunctionTypeParamKind([]ast.Type{}, ast.NewUnknownType()),
		herrors.Span{}, ast.NewNullType(herrors.Span{}), herrors.Span{})
}

func verifAnalyzerScope(inputs []verifInput) map[string]analyzer.Variable {
	m := map[string]analyzer.Variable{
		"print":   analyzer.NewBuiltinVar(verifPrintType()),
		"println": analyzer.NewBuiltinVar(verifPrintType()),
	}
	for _, in := range inputs {
		switch in.kind {
		case 'i':
			m[in.name] = analyzer.NewBuiltinVar(ast.NewIntType(herrors.Span{}))
		case 'f':
			m[in.name] = analyzer.NewBuiltinVar(ast.NewFloatType(herrors.Span{}))
		case 'b':
			m[in.name] = analyzer.NewBuiltinVar(ast.NewBoolType(herrors.Span{}))
		case 's':
			m[in.name] = analyzer.NewBuiltinVar(ast.NewStringType(herrors.Span{}))
		}
	}
	return m
}

func verifVmScope(inputs []verifInput) map[string]vvalue.Value {
	m := map[string]vvalue.Value{"print": verifVmPrint(false), "println": verifVmPrint(true)}
	for _, in := range inputs {
		switch in.kind {
		case 'i':
			m[in.name] = *vvalue.NewValueInt(in.i)
		case 'f':
			m[in.name] = *vvalue.NewValueFloat(in.f)
		case 'b':
			m[in.name] = *vvalue.NewValueBool(in.b)
		case 's':
			m[in.name] = *vvalue.NewValueString(in.s)
		}
	}
	return m
}

func verifTreeScope(inputs []verifInput) map[string]ivalue.Value {
	m := map[string]ivalue.Value{"print": verifTreePrint(false), "println": verifTreePrint(true)}
	for _, in := range inputs {
		switch in.kind {
		case 'i':
			m[in.name] = *ivalue.NewValueInt(in.i)
		case 'f':
			m[in.name] = *ivalue.NewValueFloat(in.f)
		case 'b':
			m[in.name] = *ivalue.NewValueBool(in.b)
		case 's':
			m[in.name] = *ivalue.NewValueString(in.s)
		}
	}
	return m
}

// ---- drivers ----

type verifAnalysis struct {
	usesPause bool // the program calls the host function pause(): only then is it part of the scopes
	modules  map[string]ast.AnalyzedProgram
	diags    []diagnostic.Diagnostic
	syntax   []herrors.Error
	hasError bool
}

const verifFile = "main"

func verifAnalyze(code string, modules map[string]string, inputs []verifInput, needMain bool) verifAnalysis {
	scope := verifAnalyzerScope(inputs)
	usesPause := verifContains(code, "pause(")
	if usesPause {
		scope["pause"] = analyzer.NewBuiltinVar(ast.NewFunctionType(
			ast.NewNormalFunctionTypeParamKind([]ast.FunctionTypeParam{}),
			herrors.Span{}, ast.NewNullType(herrors.Span{}), herrors.Span{}))
	}
	mods, diags, syn := Analyze(InputProgram{ProgramText: code, Filename: verifFile}, scope, verifHost{modules: modules}, needMain)
	r := verifAnalysis{modules: mods, diags: diags, syntax: syn, usesPause: usesPause}
	if len(syn) > 0 {
		r.hasError = true
	}
	for _, d := range diags {
		if d.Level == diagnostic.DiagnosticLevelError {
			r.hasError = true
		}
	}
	return r
}

func (a verifAnalysis) describe() string {
	s := ""
	for _, e := range a.syntax {
		s += "syntax: " + e.Message + "; "
	}
	for _, d := range a.diags {
		if d.Level == diagnostic.DiagnosticLevelError {
			s += "error: " + d.Message + "; "
		}
	}
	return s
}

// verifOutcome is the observable result of one run.
type verifOutcome struct {
	out      string
	class    string // "ok", "throw", "fatal:<kind>", "terminated"
	msg      string
	span     herrors.Span
	triggers []string
	polls    int
}

var verifLimits = runtime.CoreLimits{CallStackMaxSize: 100, StackMaxSize: 500, MaxMemorySize: 256}

// verifRunVM compiles and runs main() on the bytecode VM.
func verifRunVM(a verifAnalysis, modules map[string]string, inputs []verifInput, limits runtime.CoreLimits, ctx *verifCtx) verifOutcome {
	out := ""
	var triggers []string
	exec := verifSyncExec{verifVmExec: verifVmExec{out: &out, triggers: &triggers, modules: modules}, mu: &sync.Mutex{}}
	comp := compiler.NewCompiler(a.modules, verifFile)
	compiled, err := comp.Compile()
	if err != nil {
		return verifOutcome{class: "compile-error", msg: err.Error()}
	}
	var cctx context.Context = ctx
	var cancel context.CancelFunc = ctx.cancel
	vmScope := verifVmScope(inputs)
	if a.usesPause {
		vmScope["pause"] = verifVmPause()
	}
	vm := runtime.NewVM(compiled, vvalue.Executor(exec), &cctx, &cancel, vmScope, limits)
	res := vm.SpawnSync(runtime.MainFn(), nil, nil)
	o := verifOutcome{out: out, class: "ok", triggers: triggers, polls: ctx.polls}
	if res.Exception != nil {
		i := res.Exception.Interrupt
		o.msg = i.Message()
		o.span = i.GetSpan()
		switch i.Kind() {
		case vvalue.Vm_NormalExceptionInterruptKind:
			o.class = "throw"
		case vvalue.Vm_TerminateInterruptKind:
			o.class = "terminated"
		case vvalue.Vm_FatalExceptionInterruptKind:
			fe := i.(vvalue.VmFatalException)
			o.class = "fatal:" + fe.ErrKind.String()
			o.msg = fe.MessageInternal
		default:
			o.class = fmt.Sprintf("interrupt%d", i.Kind())
		}
	}
	return o
}

// verifRunTree runs main() on the tree-walking interpreter.
func verifRunTree(a verifAnalysis, modules map[string]string, inputs []verifInput, callLimit uint, ctx *verifCtx) verifOutcome {
	out := ""
	exec := verifTreeExec{out: &out, modules: modules}
	var cctx context.Context = ctx
	treeScope := verifTreeScope(inputs)
	if a.usesPause {
		treeScope["pause"] = verifTreePause()
	}
	in := interpreter.NewInterpreter(callLimit, ivalue.Executor(exec), a.modules, treeScope, &cctx)
	i := in.Execute(verifFile)
	o := verifOutcome{out: out, class: "ok", polls: ctx.polls}
	if i != nil {
		o.msg = (*i).Message()
		switch (*i).Kind() {
		case ivalue.NormalExceptionInterruptKind:
			o.class = "throw"
		case ivalue.TerminateInterruptKind:
			o.class = "terminated"
		case ivalue.FatalExceptionInterruptKind:
			re := (*i).(ivalue.RuntimeErr)
			o.class = "fatal:" + re.ErrKind.String()
			o.msg = re.MessageInternal
			o.span = re.Span
		default:
			o.class = fmt.Sprintf("interrupt%d", (*i).Kind())
		}
	}
	return o
}

func verifContains(s, sub string) bool { return strings.Contains(s, sub) }
