package homescript

import (
	"github.com/smarthome-go/homescript/v3/homescript/analyzer/ast"
	"github.com/smarthome-go/homescript/v3/homescript/errors"
	"github.com/smarthome-go/homescript/v3/homescript/fuzzer"
)

// C20: the transformer's random draws are fork variables ("for any seed" =
// for every choice, bounded number of non-default draws per path); the variant
// is printed, re-analysed (the project's own path) and run next to the
// original with unconstrained host inputs (K: small non-negative multiplier).

var verifFuzzProgs = []verifTemplate{
	{"arith", "fn main() {\n  println(A + B, A - B, A * K, (A + 1) * 2);\n  println(A == B, A != B, A < B, A >= B, A <= B, A > B);\n}\n"},
	{"literals", "fn main() {\n  println(5, 7 + 1, 2.0, 1.5, true, !false, 3 * 2);\n  let x = 10 - 4;\n  println(x * K);\n}\n"},
	{"if-else", "fn main() {\n  if A > B { println(\"gt\"); } else { println(\"le\"); }\n  let v = if P { 1 } else { 2 };\n  println(v);\n  if Q { println(\"q\"); }\n}\n"},
	{"loops", "fn main() {\n  for i in 0..3 {\n    if i == A { break; }\n    if i == B { continue; }\n    println(i);\n  }\n  let n = 0;\n  while n < 2 { n += 1; println(n); }\n  loop { if n > 0 { break; } }\n  println(\"end\");\n}\n"},
	{"casts-groups", "fn main() {\n  println((A + B) as float, (P as int) + 1, ((A)));\n}\n"},
	{"functions-globals", "let g1 = 3;\nlet g2 = 4 + 1;\nfn add(a: int, b: int) -> int { return a + b; }\nfn twice(a: int) -> int { return add(a, a); }\nfn main() {\n  println(add(g1, g2), twice(A));\n}\n"},
	{"float-arith", "fn main() {\n  println(X + Y, X - Y, 2.0 + 1.0, X < Y);\n}\n"},
	{"try-match", "fn risky(n: int) -> int { if n > 3 { throw(\"big\"); } return n + 1; }\nfn main() {\n  let v = try { risky(A) } catch e { 0 - 1 };\n  println(v);\n  println(match A { 1 => 10, _ => 20, });\n}\n"},
	{"compare-conditions", "fn main() {\n  if A <= B { println(\"le\"); } else { println(\"gt\"); }\n  if A >= B { println(\"ge\"); } else { println(\"lt\"); }\n  let c = A < B;\n  let d = A > B;\n  let e = A == B;\n  let f = A != B;\n  println(c, d, e, f);\n  let n = 0;\n  while n <= 2 { n += 1; }\n  println(n);\n  let fl = X <= Y;\n  let fg = X >= Y;\n  println(fl, fg);\n}\n"},
	{"arith-statements", "fn main() {\n  let s = A + B;\n  let d = A - B;\n  let m = A * K;\n  let q = (A - B) - (B - A);\n  println(s, d, m, q);\n  let t = A;\n  t += B;\n  t -= 3;\n  println(t);\n  let b = P && Q;\n  let o = P || Q;\n  let x = !P;\n  println(b, o, x);\n}\n"},
	{"break-in-if-else", "fn main() {\n  for i in 0..4 {\n    if i == A { break; } else { println(\"a\", i); }\n    println(\"c\", i);\n  }\n  println(\"end\");\n}\n"},
	{"continue-in-if-else", "fn main() {\n  let n = 0;\n  while n < 4 {\n    n += 1;\n    if n == C { continue; } else { println(\"w\", n); }\n    println(\"x\");\n  }\n  println(\"end\", n);\n}\n"},
	{"global-initialisers", "let dozen = 3 * 4 == 12;\nlet other = 2 * 3 != 7;\nlet prod = 5 * 2;\nlet cmp = 10 - 4 < 3 * 3;\nlet txt = \"a\" + \"b\";\nfn main() {\n  println(dozen, other, prod, cmp, txt);\n}\n"},
	{"none-literal", "fn main() {\n  let n: ?int = none;\n  println(n);\n}\n"},
	{"loop-break", "fn main() {\n  let n = 0;\n  loop {\n    n += 1;\n    if n > K { break; }\n  }\n  println(n);\n}\n"},
	{"loop-continue", "fn main() {\n  for i in 0..3 {\n    if i == A { continue; }\n    println(i);\n  }\n}\n"},
	{"mul-div-chains", "fn main() {\n  println(A / 2 * K, A % 3 * K, A * K / 2, 7 / 2 * 3);\n  let q = A / 3 * 2;\n  println(q);\n}\n"},
	{"null-literal", "fn f() -> null { return null; }\nfn main() {\n  f();\n  println(1);\n}\n"},
}

func VerifHarness_FuzzTransform() {
	ti := errors.VerifParam("only", -1) // a pinned template (explored with a larger budget of non-default draws)
	if ti < 0 {
		ti = errors.VerifNdIntRange("template", 0, len(verifFuzzProgs)-1)
	}
	t := verifFuzzProgs[ti]
	passes := errors.VerifParam("passes", 1)
	errors.VerifTag("template", t.name)
	inputs := verifStdInputs()
	k := errors.VerifNdInt64("K")
	errors.VerifAssume(k >= 0)
	errors.VerifAssume(k <= 3)
	inputs = append(inputs, verifInput{name: "K", kind: 'i', i: k})
	an := verifAnalyze(t.code, nil, inputs, true)
	if an.hasError {
		errors.VerifInconclusive("fuzz corpus program rejected: " + an.describe())
	}
	var variant ast.AnalyzedProgram
	panicked, msg := errors.VerifPanics(func() {
		tr := fuzzer.VerifNewTransformer(errors.VerifRandSource())
		variants := tr.TransformPasses(an.modules[verifFile], passes)
		variant = variants[len(variants)-1]
	})
	if panicked {
		errors.VerifUntag("template")
		errors.VerifTag("panic", errors.VerifNorm(msg))
		errors.VerifTag("site", errors.VerifPanicSite())
	}
	errors.VerifAssert("transformer-never-crashes-on-an-accepted-program", !panicked)
	if panicked {
		return
	}
	printed := variant.String()
	verifDebug("variant", printed)
	an2 := verifAnalyze(printed, nil, inputs, true)
	if an2.hasError {
		errors.VerifUntag("template")
		errors.VerifTag("diag", an2.describe())
		errors.VerifTag("__variant", printed)
	}
	errors.VerifAssert("variant-is-accepted", !an2.hasError)
	if an2.hasError {
		return
	}
	errors.VerifTag("__ignore_panic", "C02")
	var o1, o2 verifOutcome
	p, _ := errors.VerifPanics(func() {
		o1 = verifRunVM(an, nil, inputs, verifLimits, newVerifCtx())
		o2 = verifRunVM(an2, nil, inputs, verifLimits, newVerifCtx())
	})
	if p {
		errors.VerifReached("vm-panicked-skipped")
		return
	}
	errors.VerifReached("ran")
	if !(o1.class == o2.class) {
		errors.VerifTag("__variant", printed)
	}
	errors.VerifAssert("variant-has-the-same-outcome", o1.class == o2.class)
	errors.VerifAssert("variant-produces-the-same-output", o1.out == o2.out)
}

// VerifHarness_FuzzLiteral (C20): the literal rewrites of the transformer on a literal whose VALUE is a solver
// variable. The analysed tree of `println(7, 2.0 ...)` gets its int literal replaced by an unconstrained int n
// (bounded away from overflow as the property states); the transformer runs with its random draws as fork
// variables; original and variant trees are compiled directly (no printing: the text of a symbolic number cannot
// be re-lexed) and run on the VM; the outputs are compared as SMT terms, i.e. identities such as
// ((n * 4711) / 4711) == n are decided by the solver for every n in the range.
func VerifHarness_FuzzLiteral() {
	passes := errors.VerifParam("passes", 1)
	n := errors.VerifNdInt64("n")
	bound := int64(1) << uint(errors.VerifParam("bits", 31))
	errors.VerifAssume(n >= -bound)
	errors.VerifAssume(n <= bound)
	an := verifAnalyze("fn main() {\n  println(7);\n  let x = 7;\n  println(x + 1);\n}\n", nil, nil, true)
	if an.hasError {
		errors.VerifInconclusive("literal template rejected")
	}
	mod := an.modules[verifFile]
	replaced := 0
	for fi, f := range mod.Functions {
		if f.Ident.Ident() != "main" {
			continue
		}
		if stmt, ok := f.Body.Statements[0].(ast.AnalyzedExpressionStatement); ok {
			if call, ok := stmt.Expression.(ast.AnalyzedCallExpression); ok && len(call.Arguments.List) == 1 {
				if lit, ok := call.Arguments.List[0].Expression.(ast.AnalyzedIntLiteralExpression); ok {
					lit.Value = n
					call.Arguments.List[0].Expression = lit
					stmt.Expression = call
					f.Body.Statements[0] = stmt
					replaced++
				}
			}
		}
		if let, ok := f.Body.Statements[1].(ast.AnalyzedLetStatement); ok {
			if lit, ok := let.Expression.(ast.AnalyzedIntLiteralExpression); ok {
				lit.Value = n
				let.Expression = lit
				f.Body.Statements[1] = let
				replaced++
			}
		}
		mod.Functions[fi] = f
	}
	if replaced != 2 {
		errors.VerifInconclusive("literals not found in the analysed template")
	}
	an.modules[verifFile] = mod
	var variant ast.AnalyzedProgram
	panicked, msg := errors.VerifPanics(func() {
		tr := fuzzer.VerifNewTransformer(errors.VerifRandSource())
		variants := tr.TransformPasses(mod, passes)
		variant = variants[len(variants)-1]
	})
	if panicked {
		errors.VerifTag("panic", errors.VerifNorm(msg))
		errors.VerifTag("site", errors.VerifPanicSite())
	}
	errors.VerifAssert("transformer-never-crashes-on-an-accepted-program", !panicked)
	if panicked {
		return
	}
	an2 := verifAnalysis{modules: map[string]ast.AnalyzedProgram{verifFile: variant}}
	errors.VerifTag("__ignore_panic", "C02")
	var o1, o2 verifOutcome
	p, _ := errors.VerifPanics(func() {
		o1 = verifRunVM(an, nil, nil, verifLimits, newVerifCtx())
		o2 = verifRunVM(an2, nil, nil, verifLimits, newVerifCtx())
	})
	if p {
		errors.VerifReached("vm-panicked-skipped")
		return
	}
	errors.VerifReached("ran")
	errors.VerifAssert("variant-has-the-same-outcome", o1.class == o2.class)
	errors.VerifAssert("variant-produces-the-same-output", o1.out == o2.out)
}

// VerifHarness_FuzzVariantChains (C20): the passes of the transformer are chained without re-analysis, so every
// variant of a statement is itself rewritten by the next pass. For a loop exit (break / continue / return) inside a
// loop, every variant of every variant (both chosen by selectors: the whole variant lists are enumerated, the random
// draws inside a rewrite take their defaults) must still leave exactly that loop: the variant program is printed,
// re-analysed, accepted and prints what the original prints.
func VerifHarness_FuzzVariantChains() {
	exit := errors.VerifNdIntRange("exit", 0, 2)
	exitTxt := []string{"break;", "continue;", "return n;"}[exit]
	errors.VerifTag("exit", exitTxt)
	code := "fn run() -> int {\n  let n = 0;\n  let guard = 0;\n  loop {\n    guard += 1;\n    if guard > 8 { println(\"runaway\"); return 0 - 1; }\n    n += 1;\n    if n > 3 { " + exitTxt + " }\n    guard += 0;\n"
	if exit == 1 {
		code = "fn run() -> int {\n  let n = 0;\n  let guard = 0;\n  while n < 4 {\n    guard += 1;\n    if guard > 8 { println(\"runaway\"); return 0 - 1; }\n    n += 1;\n    if n > 1 { " + exitTxt + " }\n    println(\"first\");\n"
	}
	code += "  }\n  return n;\n}\nfn main() {\n  println(run());\n}\n"
	an := verifAnalyze(code, nil, nil, true)
	if an.hasError {
		errors.VerifTag("diag", an.describe())
		errors.VerifAssert("accepted", false)
		return
	}
	mod := an.modules[verifFile]
	// locate the exit statement: run() -> loop/while body -> last `if` (or the one before the print) -> then block
	fi := -1
	for i, f := range mod.Functions {
		if f.Ident.Ident() == "run" {
			fi = i
		}
	}
	if fi < 0 {
		errors.VerifInconclusive("function not found")
	}
	fn := mod.Functions[fi]
	var body *ast.AnalyzedBlock
	loopIdx := 2
	switch l := fn.Body.Statements[loopIdx].(type) {
	case ast.AnalyzedLoopStatement:
		b := l.Body
		body = &b
	case ast.AnalyzedWhileStatement:
		b := l.Body
		body = &b
	default:
		errors.VerifInconclusive("loop not found")
	}
	ifIdx := 3
	es, ok := body.Statements[ifIdx].(ast.AnalyzedExpressionStatement)
	if !ok {
		errors.VerifInconclusive("if statement not found")
	}
	ifx, ok := es.Expression.(ast.AnalyzedIfExpression)
	if !ok || len(ifx.ThenBlock.Statements) != 1 {
		errors.VerifInconclusive("if expression not found")
	}
	exitStmt := ifx.ThenBlock.Statements[0]
	origText := an.modules[verifFile].String()
	var chosen ast.AnalyzedStatement
	panicked, msg := errors.VerifPanics(func() {
		v1s := fuzzer.VerifStmtVariants(errors.VerifRandSource(), exitStmt)
		v1 := v1s[errors.VerifNdIntRange("variant1", 0, len(v1s)-1)].(ast.AnalyzedStatement)
		v2s := fuzzer.VerifStmtVariants(errors.VerifRandSource(), v1)
		chosen = v2s[errors.VerifNdIntRange("variant2", 0, len(v2s)-1)].(ast.AnalyzedStatement)
	})
	if panicked {
		errors.VerifTag("panic", errors.VerifNorm(msg))
		errors.VerifTag("site", errors.VerifPanicSite())
	}
	errors.VerifAssert("transformer-never-crashes-on-an-accepted-program", !panicked)
	if panicked {
		return
	}
	errors.VerifAssert("the-transformer-leaves-its-input-tree-as-it-was", an.modules[verifFile].String() == origText)
	// rebuild the tree around the chosen variant (copies: the analysed tree of the original stays as it is)
	thenBlock := ifx.ThenBlock
	thenBlock.Statements = []ast.AnalyzedStatement{chosen}
	ifx.ThenBlock = thenBlock
	es.Expression = ifx
	newBodyStmts := append([]ast.AnalyzedStatement{}, body.Statements...)
	newBodyStmts[ifIdx] = es
	newBody := *body
	newBody.Statements = newBodyStmts
	fnStmts := append([]ast.AnalyzedStatement{}, fn.Body.Statements...)
	switch l := fn.Body.Statements[loopIdx].(type) {
	case ast.AnalyzedLoopStatement:
		l.Body = newBody
		fnStmts[loopIdx] = l
	case ast.AnalyzedWhileStatement:
		l.Body = newBody
		fnStmts[loopIdx] = l
	}
	fn2 := fn
	fn2.Body.Statements = fnStmts
	mod2 := mod
	mod2.Functions = append([]ast.AnalyzedFunctionDefinition{}, mod.Functions...)
	mod2.Functions[fi] = fn2
	printed := mod2.String()
	if an.modules[verifFile].String() != origText {
		errors.VerifInconclusive("harness error: the splice changed the original tree")
	}
	verifDebug("variant", printed)
	an2 := verifAnalyze(printed, nil, nil, true)
	if an2.hasError {
		errors.VerifTag("diag", an2.describe())
		errors.VerifTag("__variant", printed)
	}
	errors.VerifAssert("variant-is-accepted", !an2.hasError)
	if an2.hasError {
		return
	}
	// (the original is a fixed, sound program: any crash below is the variant's)
	var o1, o2 verifOutcome
	p, _ := errors.VerifPanics(func() { o1 = verifRunVM(an, nil, nil, verifLimits, newVerifCtx()) })
	if p {
		errors.VerifReached("vm-panicked-skipped")
		return
	}
	p2, m2 := errors.VerifPanics(func() { o2 = verifRunVM(an2, nil, nil, verifLimits, newVerifCtx()) })
	if p2 {
		errors.VerifTag("panic", errors.VerifNorm(m2))
		errors.VerifAssert("variant-has-the-same-outcome", false)
		return
	}
	errors.VerifReached("ran")
	errors.VerifTag("got", errors.VerifNorm(o2.out))
	errors.VerifAssert("variant-has-the-same-outcome", o1.class == o2.class)
	errors.VerifAssert("variant-produces-the-same-output", o1.out == o2.out)
}
