package homescript

import (
	"github.com/smarthome-go/homescript/v3/homescript/analyzer/ast"
	"github.com/smarthome-go/homescript/v3/homescript/errors"
	"github.com/smarthome-go/homescript/v3/homescript/fuzzer"
)

// C20: the transformer's random draws are fork variables ("for any seed" =
// for every choice, bounded number of non-default draws per path); the variant
// is printed, re-analysed (the project's own path) and run next to the
// original with unconstrained host inputs (K: small non-negative multiplier).

var verifFuzzProgs = []verifTemplate{
	{"arith", "fn main() {\n  println(A + B, A - B, A * K, (A + 1) * 2);\n  println(A == B, A != B, A < B, A >= B, A <= B, A > B);\n}\n"},
	{"literals", "fn main() {\n  println(5, 7 + 1, 2.0, 1.5, true, !false, 3 * 2);\n  let x = 10 - 4;\n  println(x * K);\n}\n"},
	{"if-else", "fn main() {\n  if A > B { println(\"gt\"); } else { println(\"le\"); }\n  let v = if P { 1 } else { 2 };\n  println(v);\n  if Q { println(\"q\"); }\n}\n"},
	{"loops", "fn main() {\n  for i in 0..3 {\n    if i == A { break; }\n    if i == B { continue; }\n    println(i);\n  }\n  let n = 0;\n  while n < 2 { n += 1; println(n); }\n  loop { if n > 0 { break; } }\n  println(\"end\");\n}\n"},
	{"casts-groups", "fn main() {\n  println((A + B) as float, (P as int) + 1, ((A)));\n}\n"},
	{"functions-globals", "let g1 = 3;\nlet g2 = 4 + 1;\nfn add(a: int, b: int) -> int { return a + b; }\nfn twice(a: int) -> int { return add(a, a); }\nfn main() {\n  println(add(g1, g2), twice(A));\n}\n"},
	{"float-arith", "fn main() {\n  println(X + Y, X - Y, 2.0 + 1.0, X < Y);\n}\n"},
	{"try-match", "fn risky(n: int) -> int { if n > 3 { throw(\"big\"); } return n + 1; }\nfn main() {\n  let v = try { risky(A) } catch e { 0 - 1 };\n  println(v);\n  println(match A { 1 => 10, _ => 20, });\n}\n"},
	{"compare-conditions", "fn main() {\n  if A <= B { println(\"le\"); } else { println(\"gt\"); }\n  if A >= B { println(\"ge\"); } else { println(\"lt\"); }\n  let c = A < B;\n  let d = A > B;\n  let e = A == B;\n  let f = A != B;\n  println(c, d, e, f);\n  let n = 0;\n  while n <= 2 { n += 1; }\n  println(n);\n  let fl = X <= Y;\n  let fg = X >= Y;\n  println(fl, fg);\n}\n"},
	{"arith-statements", "fn main() {\n  let s = A + B;\n  let d = A - B;\n  let m = A * K;\n  let q = (A - B) - (B - A);\n  println(s, d, m, q);\n  let t = A;\n  t += B;\n  t -= 3;\n  println(t);\n  let b = P && Q;\n  let o = P || Q;\n  let x = !P;\n  println(b, o, x);\n}\n"},
	{"break-in-if-else", "fn main() {\n  for i in 0..4 {\n    if i == A { break; } else { println(\"a\", i); }\n    println(\"c\", i);\n  }\n  println(\"end\");\n}\n"},
	{"continue-in-if-else", "fn main() {\n  let n = 0;\n  while n < 4 {\n    n += 1;\n    if n == C { continue; } else { println(\"w\", n); }\n    println(\"x\");\n  }\n  println(\"end\", n);\n}\n"},
	{"none-literal", "fn main() {\n  let n: ?int = none;\n  println(n);\n}\n"},
	{"null-literal", "fn f() -> null { return null; }\nfn main() {\n  f();\n  println(1);\n}\n"},
}

func VerifHarness_FuzzTransform() {
	t := verifFuzzProgs[errors.VerifNdIntRange("template", 0, len(verifFuzzProgs)-1)]
	passes := errors.VerifParam("passes", 1)
	errors.VerifTag("template", t.name)
	inputs := verifStdInputs()
	k := errors.VerifNdInt64("K")
	errors.VerifAssume(k >= 0)
	errors.VerifAssume(k <= 3)
	inputs = append(inputs, verifInput{name: "K", kind: 'i', i: k})
	an := verifAnalyze(t.code, nil, inputs, true)
	if an.hasError {
		errors.VerifInconclusive("fuzz corpus program rejected: " + an.describe())
	}
	var variant ast.AnalyzedProgram
	panicked, msg := errors.VerifPanics(func() {
		tr := fuzzer.VerifNewTransformer(errors.VerifRandSource())
		variants := tr.TransformPasses(an.modules[verifFile], passes)
		variant = variants[len(variants)-1]
	})
	if panicked {
		errors.VerifUntag("template")
		errors.VerifTag("panic", errors.VerifNorm(msg))
		errors.VerifTag("site", errors.VerifPanicSite())
	}
	errors.VerifAssert("transformer-never-crashes-on-an-accepted-program", !panicked)
	if panicked {
		return
	}
	printed := variant.String()
	verifDebug("variant", printed)
	an2 := verifAnalyze(printed, nil, inputs, true)
	if an2.hasError {
		errors.VerifUntag("template")
		errors.VerifTag("diag", an2.describe())
		errors.VerifTag("__variant", printed)
	}
	errors.VerifAssert("variant-is-accepted", !an2.hasError)
	if an2.hasError {
		return
	}
	errors.VerifTag("__ignore_panic", "C02")
	var o1, o2 verifOutcome
	p, _ := errors.VerifPanics(func() {
		o1 = verifRunVM(an, nil, inputs, verifLimits, newVerifCtx())
		o2 = verifRunVM(an2, nil, inputs, verifLimits, newVerifCtx())
	})
	if p {
		errors.VerifReached("vm-panicked-skipped")
		return
	}
	errors.VerifReached("ran")
	if !(o1.class == o2.class) {
		errors.VerifTag("__variant", printed)
	}
	errors.VerifAssert("variant-has-the-same-outcome", o1.class == o2.class)
	errors.VerifAssert("variant-produces-the-same-output", o1.out == o2.out)
}
