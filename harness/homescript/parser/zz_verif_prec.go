package parser

import (
	"fmt"

	"github.com/smarthome-go/homescript/v3/homescript/errors"
	"github.com/smarthome-go/homescript/v3/homescript/lexer"
	"github.com/smarthome-go/homescript/v3/homescript/parser/ast"
)

// C07: the tree built for `a OP b OP c OP d` (operator token kinds are solver
// variables ranging over all binary and assignment operators) is the one fixed
// by the documented operator table.

// verifLevel: binding level from the property statement, loosest = 1. 0 = not a binary operator.
func verifLevel(k lexer.TokenKind) (level int, rightAssoc bool) {
	switch k {
	case lexer.Assign, lexer.PlusAssign, lexer.MinusAssign, lexer.MultiplyAssign, lexer.DivideAssign, lexer.ModuloAssign,
		lexer.PowerAssign, lexer.ShiftLeftAssign, lexer.ShiftRightAssign, lexer.BitOrAssign, lexer.BitAndAssign, lexer.BitXorAssign:
		return 1, false
	case lexer.Or:
		return 2, false
	case lexer.And:
		return 3, false
	case lexer.BitOr:
		return 4, false
	case lexer.BitXor:
		return 5, false
	case lexer.BitAnd:
		return 6, false
	case lexer.Equal, lexer.NotEqual:
		return 7, false
	case lexer.LessThan, lexer.GreaterThan, lexer.LessThanEqual, lexer.GreaterThanEqual:
		return 8, false
	case lexer.ShiftLeft, lexer.ShiftRight:
		return 9, false
	case lexer.Plus, lexer.Minus:
		return 10, false
	case lexer.Multiply, lexer.Divide, lexer.Modulo:
		return 11, false
	case lexer.Power:
		return 13, true
	}
	return 0, false
}

// verifRefShape: split operands lo..hi (inclusive) at the loosest operator: the LAST one for
// left-associative levels, the FIRST one for right-associative levels.
func verifRefShape(lo, hi int, levels []int, rassoc []bool) string {
	if lo == hi {
		return string(rune('a' + lo))
	}
	best := -1
	for i := lo; i < hi; i++ {
		if best < 0 || levels[i] < levels[best] || (levels[i] == levels[best] && !rassoc[i]) {
			best = i
		}
	}
	return "(" + verifRefShape(lo, best, levels, rassoc) + " " + fmt.Sprint(best) + " " + verifRefShape(best+1, hi, levels, rassoc) + ")"
}

// verifAstShape renders the parsed tree with operator POSITIONS (recovered from the operand names).
func verifAstShape(e ast.Expression) (shape string, lo, hi int, ok bool) {
	switch n := e.(type) {
	case ast.IdentExpression:
		name := n.Ident.Ident()
		if len(name) != 1 {
			return "", 0, 0, false
		}
		i := int(name[0] - 'a')
		return name, i, i, true
	case ast.GroupedExpression:
		return verifAstShape(n.Inner)
	case ast.InfixExpression:
		l, llo, lhi, ok1 := verifAstShape(n.Lhs)
		r, rlo, rhi, ok2 := verifAstShape(n.Rhs)
		if !ok1 || !ok2 || lhi+1 != rlo {
			return "", 0, 0, false
		}
		return "(" + l + " " + fmt.Sprint(lhi) + " " + r + ")", llo, rhi, true
	case ast.AssignExpression:
		l, llo, lhi, ok1 := verifAstShape(n.Lhs)
		r, rlo, rhi, ok2 := verifAstShape(n.Rhs)
		if !ok1 || !ok2 || lhi+1 != rlo {
			return "", 0, 0, false
		}
		return "(" + l + " " + fmt.Sprint(lhi) + " " + r + ")", llo, rhi, true
	}
	return "", 0, 0, false
}

func VerifHarness_Precedence() {
	nops := errors.VerifNdIntRange("nops", 1, errors.VerifParam("OPS", 3))
	var toks []verifStubTok
	kinds := make([]lexer.TokenKind, nops)
	levels := make([]int, nops)
	rassoc := make([]bool, nops)
	tag := ""
	for i := 0; i <= nops; i++ {
		toks = append(toks, verifStubTok{Kind: lexer.Identifier, Value: string(rune('a' + i))})
		if i < nops {
			k := errors.VerifNdByte(fmt.Sprintf("op%d", i))
			errors.VerifAssume(k <= lexer.VerifMaxKind)
			kinds[i] = lexer.TokenKind(k)
			levels[i], rassoc[i] = verifLevel(kinds[i])
			if levels[i] == 0 {
				errors.VerifAssume(false) // not a binary operator of the table
			}
			tag += fmt.Sprint(levels[i]) + ","
			toks = append(toks, verifStubTok{Kind: kinds[i]})
		}
	}
	toks = append(toks, verifStubTok{Kind: lexer.Semicolon})
	errors.VerifTag("levels", tag)
	p := verifParserFor(toks, false)
	var expr ast.Expression
	var err *errors.Error
	panicked, msg := errors.VerifPanics(func() {
		if err = p.next(); err != nil {
			return
		}
		expr, _, err = p.expression(0)
	})
	if panicked {
		errors.VerifTag("panic", errors.VerifNorm(msg))
	}
	errors.VerifAssert("no-panic", !panicked)
	if panicked {
		return
	}
	errors.VerifReached("parsed")
	hasAssign := false
	for i := 0; i < nops; i++ {
		if levels[i] == 1 {
			hasAssign = true
		}
	}
	if err != nil {
		// an assignment whose left-hand side is not a place may be rejected as a syntax error
		errors.VerifAssert("assignment-free-operator-sequence-parses", hasAssign)
		errors.VerifReached("rejected")
		return
	}
	want := verifRefShape(0, nops, levels, rassoc)
	got, _, _, ok := verifAstShape(expr)
	if !ok {
		got = "<unexpected node>"
	}
	errors.VerifTag("want", want)
	errors.VerifAssert("tree-follows-operator-table", got == want)
	errors.VerifAssert("whole-sequence-consumed", p.CurrentToken.Kind == lexer.Semicolon)
}

// ---- prefix / postfix / `as` / layout (concrete text, real lexer) ----

var verifBinText = []string{"=", "+=", "||", "&&", "|", "^", "&", "==", "<", "<<", "+", "*", "**"}
var verifPrefixText = []string{"", "!", "-", "?"}
var verifPostfixText = []string{"", "()", "[0]", ".m"}

// verifCanon renders an expression tree without layout: grouping parentheses only where the tree needs them.
func verifCanon(e ast.Expression) string {
	switch n := e.(type) {
	case ast.IdentExpression:
		return n.Ident.Ident()
	case ast.IntLiteralExpression:
		return fmt.Sprint(n.Value)
	case ast.GroupedExpression:
		return verifCanon(n.Inner)
	case ast.InfixExpression:
		return "(" + verifCanon(n.Lhs) + " " + n.Operator.String() + " " + verifCanon(n.Rhs) + ")"
	case ast.AssignExpression:
		return "(" + verifCanon(n.Lhs) + " " + n.AssignOperator.String() + " " + verifCanon(n.Rhs) + ")"
	case ast.PrefixExpression:
		return "(" + n.Operator.String() + verifCanon(n.Base) + ")"
	case ast.CallExpression:
		s := "call(" + verifCanon(n.Base)
		for _, a := range n.Arguments.List {
			s += "," + verifCanon(a)
		}
		return s + ")"
	case ast.IndexExpression:
		return "idx(" + verifCanon(n.Base) + "," + verifCanon(n.Index) + ")"
	case ast.MemberExpression:
		return "mem(" + verifCanon(n.Base) + "," + n.Member.Ident() + ")"
	case ast.CastExpression:
		return "(" + verifCanon(n.Base) + " as " + n.AsType.String() + ")"
	case ast.ListLiteralExpression:
		s := "list("
		for i, a := range n.Values {
			if i > 0 {
				s += ","
			}
			s += verifCanon(a)
		}
		return s + ")"
	}
	return fmt.Sprintf("<%T>", e)
}

func verifParseExpr(text string) (string, bool) {
	p := NewParser(lexer.NewLexer(text+";", "f.hms"), "f.hms")
	if err := p.next(); err != nil {
		return "lex error: " + err.Message, false
	}
	e, _, err := p.expression(0)
	if err != nil {
		return "error: " + err.Message, false
	}
	if p.CurrentToken.Kind != lexer.Semicolon {
		return "trailing tokens", false
	}
	return verifCanon(e), true
}

// VerifHarness_PrefixPostfix: `pre0 a post0 OP pre1 b post1`: prefix operators bind tighter than every
// binary operator but looser than call / index / member; `as` binds between `*` and `**`;
// layout (whitespace, comments, parentheses around a single node, trailing commas) never changes the tree.
func VerifHarness_PrefixPostfix() {
	pre0 := verifPrefixText[errors.VerifNdIntRange("pre0", 0, 3)]
	pre1 := verifPrefixText[errors.VerifNdIntRange("pre1", 0, 3)]
	post0 := verifPostfixText[errors.VerifNdIntRange("post0", 0, 3)]
	post1 := verifPostfixText[errors.VerifNdIntRange("post1", 0, 3)]
	op := verifBinText[errors.VerifNdIntRange("op", 0, len(verifBinText)-1)]
	errors.VerifTag("shape", pre0+"a"+post0+" "+op+" "+pre1+"b"+post1)
	wantOperand := func(pre, name, post string) string {
		s := name
		switch post {
		case "()":
			s = "call(" + s + ")"
		case "[0]":
			s = "idx(" + s + ",0)"
		case ".m":
			s = "mem(" + s + ",m)"
		}
		if pre != "" {
			s = "(" + pre + s + ")"
		}
		return s
	}
	want := "(" + wantOperand(pre0, "a", post0) + " " + op + " " + wantOperand(pre1, "b", post1) + ")"
	plain := pre0 + "a" + post0 + " " + op + " " + pre1 + "b" + post1
	got, ok := verifParseExpr(plain)
	errors.VerifReached("parsed")
	isAssign := op == "=" || op == "+="
	if isAssign && (pre0 != "" || post0 == "()") {
		// not a place: the parser may (and does) reject it
		errors.VerifReached("invalid-assignment-target")
		return
	}
	errors.VerifAssert("expression-parses", ok)
	if !ok {
		errors.VerifTag("err", got)
		return
	}
	errors.VerifAssert("prefix-tighter-than-binary-looser-than-postfix", got == want)
	// layout variants
	spaced := pre0 + " a " + post0 + "\n\t" + op + " /* c */ " + pre1 + " b // x\n" + post1
	g2, ok2 := verifParseExpr(spaced)
	errors.VerifAssert("whitespace-and-comments-ignored", ok2 && g2 == got)
	paren := pre0 + "(a)" + post0 + " " + op + " " + pre1 + "(b)" + post1
	g3, ok3 := verifParseExpr(paren)
	if isAssign {
		errors.VerifUntag("shape")
		errors.VerifAssert("parenthesised-assignment-target-keeps-the-tree", ok3 && g3 == got)
	} else {
		errors.VerifAssert("parentheses-around-single-node-ignored", ok3 && g3 == got)
	}
}

// VerifHarness_AsAndCommas: `as` level and trailing commas.
func VerifHarness_AsAndCommas() {
	op := verifBinText[errors.VerifNdIntRange("op", 2, len(verifBinText)-1)]
	errors.VerifTag("op", op)
	// a OP b as int : `as` binds tighter than everything but `**`
	got, ok := verifParseExpr("a " + op + " b as int")
	errors.VerifReached("parsed")
	errors.VerifAssert("as-parses", ok)
	if ok {
		want := "(a " + op + " (b as int))"
		if op == "**" {
			want = "((a ** b) as int)"
		}
		errors.VerifAssert("as-binds-between-multiplicative-and-power", got == want)
	}
	g1, ok1 := verifParseExpr("f(a, b)")
	g2, ok2 := verifParseExpr("f(a, b,)")
	errors.VerifAssert("trailing-comma-in-call", ok1 && ok2 && g1 == g2)
	l1, ok3 := verifParseExpr("[a, b]")
	l2, ok4 := verifParseExpr("[a, b,]")
	errors.VerifAssert("trailing-comma-in-list", ok3 && ok4 && l1 == l2)
}

// ---- comments with unconstrained content ----

func verifParseRunes(prog []rune) (string, bool) {
	p := NewParser(lexer.VerifLexerFromRunes(prog), "f.hms")
	if err := p.next(); err != nil {
		return "lex error: " + err.Message, false
	}
	e, _, err := p.expression(0)
	if err != nil {
		return "error: " + err.Message, false
	}
	if p.CurrentToken.Kind != lexer.Semicolon {
		return "trailing tokens", false
	}
	return verifCanon(e), true
}

// VerifHarness_CommentLayout: `a OP1 <comment> b OP2 <comment> c` where the comments' content is <= K unconstrained
// runes each (block comment: any content without the terminator; line comment: any content without a line feed). The
// tree must be the one of `a OP1 b OP2 c`: a comment ends exactly at its terminator whatever it contains.
func VerifHarness_CommentLayout() {
	K := errors.VerifParam("K", 3)
	pair := errors.VerifNdIntRange("ops", 0, 2)
	op1 := []string{"+", "*", "="}[pair]
	op2 := []string{"*", "+", "||"}[pair]
	want := []string{"(a + (b * c))", "((a * b) + c)", "(a = (b || c))"}[pair]
	kind := errors.VerifNdIntRange("comment", 0, 1) // 0 block, 1 line
	errors.VerifTag("comment", []string{"block", "line"}[kind])
	n := errors.VerifNdIntRange("len", 0, K)
	content := make([]rune, n)
	for i := range content {
		r := errors.VerifNdRune(fmt.Sprintf("r%d", i))
		errors.VerifAssume(r >= 0)
		errors.VerifAssume(r <= 0x10FFFF)
		errors.VerifAssume(errors.VerifOr(r < 0xD800, r > 0xDFFF))
		if kind == 1 {
			errors.VerifAssume(r != '\n')
		}
		content[i] = r
	}
	if kind == 0 {
		for i := 0; i+1 < n; i++ {
			errors.VerifAssume(!errors.VerifAnd(content[i] == '*', content[i+1] == '/'))
		}
	}
	comment := func() []rune {
		if kind == 0 {
			return append(append([]rune("/*"), content...), []rune("*/")...)
		}
		return append(append([]rune("//"), content...), '\n')
	}
	prog := []rune("a " + op1 + " ")
	prog = append(prog, comment()...)
	prog = append(prog, []rune(" b "+op2)...)
	prog = append(prog, comment()...)
	prog = append(prog, []rune("c;")...)
	got, ok := verifParseRunes(prog)
	errors.VerifReached("parsed")
	if !ok {
		errors.VerifTag("err", got)
	}
	errors.VerifAssert("expression-with-comments-parses", ok)
	if ok {
		errors.VerifAssert("comment-content-never-changes-the-tree", got == want)
	}
}
