package parser

import (
	"fmt"

	"github.com/smarthome-go/homescript/v3/homescript/errors"
	"github.com/smarthome-go/homescript/v3/homescript/lexer"
)

// Stub lexer for parser harnesses: serves a scripted token sequence whose
// token KINDS are solver variables. Inside the engine `(*Lexer).NextToken` is
// overridden by verifStubNextToken; natively (replay) the kinds are rendered
// back to text and the real lexer is used.

type verifStubTok struct {
	kind  lexer.TokenKind
	value string
	isErr bool
}

var verifStub struct {
	toks   []verifStubTok
	pos    int
	sticky bool // a lexer error that does not consume input is returned again by every later call (illegal character)
}

func verifStubNextToken(l *lexer.Lexer) (lexer.Token, *errors.Error) {
	n := uint(verifStub.pos)
	loc := errors.Location{Line: 1, Column: 1 + 2*n, Index: 2 * n}
	span := errors.Span{Start: loc, End: loc, Filename: "f.hms"}
	if verifStub.pos >= len(verifStub.toks) {
		return lexer.Token{Kind: lexer.EOF, Value: "EOF", Span: span}, nil
	}
	t := verifStub.toks[verifStub.pos]
	if !(t.isErr && verifStub.sticky) {
		verifStub.pos++
	}
	if t.isErr {
		return lexer.UnknownToken(loc), errors.NewError(span, "illegal character", errors.SyntaxError)
	}
	return lexer.Token{Kind: t.kind, Value: t.value, Span: span}, nil
}

func verifStubKindString(k lexer.TokenKind) string { return "<token>" }

const verifMaxKind = uint8(lexer.Identifier)

var verifIdentValues = []string{"x", "on", "main"}

// verifDrawTokens draws L tokens with symbolic kinds; errPos (if >= 0) is a lexer error.
func verifDrawTokens(L int) []verifStubTok {
	n := errors.VerifNdIntRange("ntok", 0, L)
	errPos := errors.VerifNdIntRange("errpos", -1, n-1)
	toks := make([]verifStubTok, n)
	for i := range toks {
		if i == errPos {
			toks[i] = verifStubTok{isErr: true}
			continue
		}
		k := errors.VerifNdByte(fmt.Sprintf("k%d", i))
		errors.VerifAssume(k <= verifMaxKind)
		errors.VerifAssume(k > uint8(lexer.EOF))
		kind := lexer.TokenKind(k)
		val := ""
		switch kind {
		case lexer.Identifier:
			val = verifIdentValues[errors.VerifNdIntRange(fmt.Sprintf("id%d", i), 0, len(verifIdentValues)-1)]
		case lexer.Int:
			val = "1"
		case lexer.Float:
			val = "1.5"
		case lexer.String:
			val = "s"
		}
		toks[i] = verifStubTok{kind: kind, value: val}
	}
	return toks
}

// verifRender turns the token sequence back into source text for the real lexer.
func verifRender(toks []verifStubTok) string {
	s := ""
	for _, t := range toks {
		if t.isErr {
			// '§' is an illegal character (the lexer does not consume it: sticky); an unknown escape is consumed
			s += "§ "
			continue
		}
		switch t.kind {
		case lexer.Identifier, lexer.Int, lexer.Float:
			s += t.value
		case lexer.String:
			s += "\"" + t.value + "\""
		case lexer.Underscore:
			s += "_"
		default:
			s += t.kind.String()
		}
		s += " "
	}
	return s
}

// VerifHarness_ParseTokens: Parse never panics and terminates on any sequence of <= L tokens
// (any kinds, with or without a lexer error in between).
func VerifHarness_ParseTokens() {
	L := errors.VerifParam("L", 4)
	toks := verifDrawTokens(L)
	var p Parser
	sticky := false
	for _, t := range toks {
		if t.isErr {
			sticky = errors.VerifNdIntRange("sticky", 0, 1) == 1
		}
	}
	if errors.VerifIsSymbolic() {
		verifStub.toks = toks
		verifStub.pos = 0
		verifStub.sticky = sticky
		p = NewParser(lexer.NewLexer("", "f.hms"), "f.hms")
	} else {
		text := verifRender(toks)
		fmt.Printf("VERIF-DEBUG text: %q\n", text)
		p = NewParser(lexer.NewLexer(text, "f.hms"), "f.hms")
	}
	panicked, msg := errors.VerifPanics(func() { p.Parse() })
	if panicked {
		errors.VerifTag("panic", errors.VerifNorm(msg))
	}
	errors.VerifAssert("parse-no-panic", !panicked)
	errors.VerifReached("parsed")
}
