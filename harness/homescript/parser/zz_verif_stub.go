package parser

import (
	"fmt"

	"github.com/smarthome-go/homescript/v3/homescript/errors"
	"github.com/smarthome-go/homescript/v3/homescript/lexer"
)

type verifStubTok = lexer.VerifStubTok

// verifDrawTokens draws <= L tokens with symbolic kinds; one position may be a lexer error.
func verifDrawTokens(L int) []verifStubTok {
	n := errors.VerifNdIntRange("ntok", 0, L)
	errPos := errors.VerifNdIntRange("errpos", -1, n-1)
	toks := make([]verifStubTok, n)
	for i := range toks {
		if i == errPos {
			toks[i] = verifStubTok{IsErr: true}
			continue
		}
		k := errors.VerifNdByte(fmt.Sprintf("k%d", i))
		errors.VerifAssume(k <= lexer.VerifMaxKind)
		errors.VerifAssume(k > uint8(lexer.EOF))
		kind := lexer.TokenKind(k)
		toks[i] = verifStubTok{Kind: kind, Value: lexer.VerifValueFor(kind, fmt.Sprintf("id%d", i))}
	}
	return toks
}

// verifParserFor builds a parser over the script: stub lexer in the engine, real lexer on the rendered text natively.
func verifParserFor(toks []verifStubTok, sticky bool) Parser {
	if errors.VerifIsSymbolic() {
		lexer.VerifStubSet(toks, sticky)
		return NewParser(lexer.NewLexer("", lexer.VerifStubFile), lexer.VerifStubFile)
	}
	text := lexer.VerifRender(toks)
	fmt.Printf("VERIF-DEBUG text: %q\n", text)
	return NewParser(lexer.NewLexer(text, lexer.VerifStubFile), lexer.VerifStubFile)
}

// VerifHarness_ParseTokens: Parse never panics and terminates on any sequence of <= L tokens
// (any kinds, with or without a lexer error in between).
func VerifHarness_ParseTokens() {
	L := errors.VerifParam("L", 4)
	toks := verifDrawTokens(L)
	sticky := false
	for _, t := range toks {
		if t.IsErr {
			sticky = errors.VerifNdIntRange("sticky", 0, 1) == 1
		}
	}
	p := verifParserFor(toks, sticky)
	panicked, msg := errors.VerifPanics(func() { p.Parse() })
	if panicked {
		errors.VerifTag("panic", errors.VerifNorm(msg))
	}
	errors.VerifAssert("parse-no-panic", !panicked)
	errors.VerifReached("parsed")
}
