package lexer

import (
	"fmt"

	"github.com/smarthome-go/homescript/v3/homescript/errors"
)

// verifWindow draws a window of at most K unconstrained Unicode scalar values.
func verifWindow(K int) []rune {
	n := errors.VerifNdIntRange("len", 0, K)
	prog := make([]rune, n)
	for i := range prog {
		r := errors.VerifNdRune(fmt.Sprintf("r%d", i))
		// values []rune(string) can produce: Unicode scalar values
		errors.VerifAssume(r >= 0)
		errors.VerifAssume(r <= 0x10FFFF)
		errors.VerifAssume(errors.VerifOr(r < 0xD800, r > 0xDFFF))
		prog[i] = r
	}
	return prog
}

func verifBase() errors.Location {
	base := errors.Location{Line: errors.VerifNdUint("line"), Column: errors.VerifNdUint("col"), Index: errors.VerifNdUint("idx")}
	errors.VerifAssume(base.Line >= 1)
	errors.VerifAssume(base.Column >= 1)
	errors.VerifAssume(base.Line < 1<<40)
	errors.VerifAssume(base.Column < 1<<40)
	errors.VerifAssume(base.Index < 1<<40)
	return base
}

// VerifHarness_LexDiff: the token stream of any window of <= K runes, lexed
// from any start location, equals the reference lexer's (kind, value, span,
// file name, cursor), token by token until EOF or the first error.
func VerifHarness_LexDiff() {
	K := errors.VerifParam("K", 3)
	prog := verifWindow(K)
	verifLexDiffRun(prog)
}

func verifLexDiffRun(prog []rune) {
	base := verifBase()
	lx := verifMkLexer(prog)
	lx.location = base
	endLoc := verifLocAt(prog, base, len(prog))
	pos := 0
	for step := 0; step <= len(prog)+1; step++ {
		ref := verifRefNext(prog, pos)
		var tok Token
		var err *errors.Error
		panicked, msg := errors.VerifPanics(func() { tok, err = lx.NextToken() })
		if panicked {
			errors.VerifTag("panic", errors.VerifNorm(msg))
		}
		errors.VerifAssert("no-panic", !panicked)
		if panicked {
			return
		}
		if ref.anyOf {
			errors.VerifTag("class", "unterminated-comment")
			errors.VerifAssert("unterminated-comment-yields-no-token", err != nil || tok.Kind == EOF)
			return
		}
		if ref.isErr {
			errors.VerifTag("class", "error")
			errors.VerifAssert("error-reported", err != nil)
			if err != nil {
				sp := err.Span
				errors.VerifAssert("error-span-ordered", sp.Start.Index <= sp.End.Index)
				errors.VerifAssert("error-span-inside-text", errors.VerifAnd(sp.Start.Index >= base.Index, sp.End.Index <= endLoc.Index))
				errors.VerifAssert("error-span-names-file", sp.Filename == "f.hms")
			}
			return
		}
		errors.VerifTag("class", "any")
		errors.VerifAssert("no-spurious-error", err == nil)
		if err != nil {
			return
		}
		errors.VerifTag("class", verifKindName(ref.kind))
		errors.VerifAssert("kind", tok.Kind == ref.kind)
		if tok.Kind != ref.kind {
			return
		}
		if !ref.lenient && !ref.isEOF {
			errors.VerifAssert("value", tok.Value == ref.value)
		}
		errors.VerifAssert("span-start", tok.Span.Start == verifLocAt(prog, base, ref.start))
		errors.VerifAssert("span-end", tok.Span.End == verifLocAt(prog, base, ref.end))
		errors.VerifAssert("span-names-file", tok.Span.Filename == "f.hms")
		if ref.isEOF {
			errors.VerifReached("eof")
			return
		}
		errors.VerifAssert("cursor-after-lexeme", lx.currentIndex == ref.next)
		if lx.currentIndex != ref.next {
			return
		}
		pos = ref.next
	}
}

// verifLexStep compares exactly one NextToken call with the reference.
// Inductive step: the lexer's state is (remaining runes, location); if every
// single step from an arbitrary such state is right and leaves the cursor
// directly behind the lexeme, the whole token stream is right.
func verifLexStep(prog []rune) {
	base := verifBase()
	lx := verifMkLexer(prog)
	lx.location = base
	endLoc := verifLocAt(prog, base, len(prog))
	ref := verifRefNext(prog, 0)
	var tok Token
	var err *errors.Error
	panicked, msg := errors.VerifPanics(func() { tok, err = lx.NextToken() })
	if panicked {
		errors.VerifTag("panic", errors.VerifNorm(msg))
	}
	errors.VerifAssert("no-panic", !panicked)
	if panicked {
		return
	}
	errors.VerifReached("returned")
	if ref.anyOf {
		errors.VerifTag("class", "unterminated-comment")
		errors.VerifAssert("unterminated-comment-yields-no-token", err != nil || tok.Kind == EOF)
		return
	}
	if ref.isErr {
		errors.VerifTag("class", "error")
		errors.VerifAssert("error-reported", err != nil)
		if err != nil {
			sp := err.Span
			errors.VerifAssert("error-span-ordered", sp.Start.Index <= sp.End.Index)
			errors.VerifAssert("error-span-inside-text", errors.VerifAnd(sp.Start.Index >= base.Index, sp.End.Index <= endLoc.Index))
			errors.VerifAssert("error-span-names-file", sp.Filename == "f.hms")
		}
		return
	}
	errors.VerifTag("class", "any")
	errors.VerifAssert("no-spurious-error", err == nil)
	if err != nil {
		return
	}
	errors.VerifTag("class", verifKindName(ref.kind))
	errors.VerifAssert("kind", tok.Kind == ref.kind)
	if tok.Kind != ref.kind {
		return
	}
	if !ref.lenient && !ref.isEOF {
		errors.VerifAssert("value", tok.Value == ref.value)
	}
	errors.VerifAssert("span-start", tok.Span.Start == verifLocAt(prog, base, ref.start))
	errors.VerifAssert("span-end", tok.Span.End == verifLocAt(prog, base, ref.end))
	errors.VerifAssert("span-names-file", tok.Span.Filename == "f.hms")
	errors.VerifAssert("cursor-after-lexeme", lx.currentIndex == ref.next)
	// representation invariant of the next state
	if lx.currentIndex == ref.next {
		errors.VerifAssert("state-location", lx.location == verifLocAt(prog, base, ref.next))
		if ref.next < len(prog) {
			errors.VerifAssert("state-current", lx.currentChar == &lx.program[ref.next])
		} else {
			errors.VerifAssert("state-current", lx.currentChar == nil)
		}
		if ref.next+1 < len(prog) {
			errors.VerifAssert("state-next", lx.nextChar == &lx.program[ref.next+1])
		} else {
			errors.VerifAssert("state-next", lx.nextChar == nil)
		}
	}
}

// VerifHarness_LexStep: one token from any window of <= K runes.
func VerifHarness_LexStep() {
	verifLexStep(verifWindow(errors.VerifParam("K", 5)))
}

var verifPrefixes = []string{"\"\\U", "\"\\u", "'\\x", "\"\\", "'a", "/*", "//", "/* *", "1_", "1.", "12", "9f", "ab", "tr", "whil", "impor", "<", ">", "*", "\"\\U0010", "\"\\UFFFF", "'\\uD8", " \t\r\n"}

// VerifHarness_LexStepPrefixed: one token from (fixed prefix from a list of
// construct openers) ++ (any <= K runes); reaches long lexemes (8-digit
// escapes, comments, keywords) without paying for the prefix symbolically.
func VerifHarness_LexStepPrefixed() {
	K := errors.VerifParam("K", 4)
	pi := errors.VerifNdIntRange("prefix", 0, len(verifPrefixes)-1)
	errors.VerifTag("prefix", fmt.Sprint(pi))
	prog := append([]rune(verifPrefixes[pi]), verifWindow(K)...)
	verifLexStep(prog)
}

// Numeric escapes, complete: opener ++ D unconstrained digits of the escape's radix ++ closing quote ++ one more rune.
// LexStepPrefixed reaches the digits only up to its window; here every digit of a complete escape is a solver variable,
// so the decoded code point (and the Unicode-scalar boundary cases) is decided for all digit strings of the form.
var verifEscapeForms = []struct {
	opener string
	digits int
	octal  bool
	quote  rune
}{
	{"\"\\x", 2, false, '"'},
	{"'\\x", 2, false, '\''},
	{"\"\\u", 4, false, '"'},
	{"'a\\u", 4, false, '\''},
	{"\"\\U00", 6, false, '"'},
	{"\"\\U", 3, false, '"'}, // too short: must be an error
	{"\"\\", 3, true, '"'},
	{"'\\u00e4\\", 3, true, '\''},
}

func VerifHarness_LexEscapes() {
	fi := errors.VerifNdIntRange("form", 0, len(verifEscapeForms)-1)
	f := verifEscapeForms[fi]
	errors.VerifTag("form", fmt.Sprint(fi))
	prog := []rune(f.opener)
	for i := 0; i < f.digits; i++ {
		r := errors.VerifNdRune(fmt.Sprintf("d%d", i))
		if f.octal {
			errors.VerifAssume(vIsOctal(r))
		} else {
			errors.VerifAssume(vIsHex(r))
		}
		prog = append(prog, r)
	}
	prog = append(prog, f.quote, ';')
	verifLexStep(prog)
}
