package lexer

// Reference lexer written from grammar.ebnf (section "Tokens") and DESIGN.md
// appendix B.1. It is executed by the symbolic engine next to the real lexer
// on the same window of unconstrained runes, and natively during replay.

import (
	"fmt"

	"github.com/smarthome-go/homescript/v3/homescript/errors"
)

type verifRefTok struct {
	kind     TokenKind
	value    string
	start    int // rune offset of the first rune of the lexeme
	end      int // rune offset of the last rune of the lexeme (inclusive)
	next     int // rune offset following the lexeme
	isErr    bool
	isEOF    bool
	anyOf    bool // unterminated block comment: error or EOF both accepted
	lenient  bool // value may legitimately differ (invalid code point escapes)
}

func vIsDigit(c rune) bool  { return errors.VerifAnd(c >= '0', c <= '9') }
func vIsOctal(c rune) bool  { return errors.VerifAnd(c >= '0', c <= '7') }
func vIsLetter(c rune) bool {
	return errors.VerifOr(errors.VerifOr(errors.VerifAnd(c >= 'a', c <= 'z'), errors.VerifAnd(c >= 'A', c <= 'Z')), c == '_')
}
func vIsHex(c rune) bool {
	return errors.VerifOr(errors.VerifOr(errors.VerifAnd(c >= '0', c <= '9'), errors.VerifAnd(c >= 'a', c <= 'f')), errors.VerifAnd(c >= 'A', c <= 'F'))
}
func vHexVal(c rune) rune {
	if c <= '9' {
		return c - '0'
	}
	if c <= 'F' {
		return c - 'A' + 10
	}
	return c - 'a' + 10
}

var verifKeywords = map[string]TokenKind{
	"true": True, "on": True, "false": False, "off": False, "null": Null, "none": None, "pub": Pub, "fn": Fn,
	"if": If, "else": Else, "match": Match, "for": For, "while": While, "loop": Loop, "break": Break,
	"continue": Continue, "return": Return, "import": Import, "as": As, "from": From, "let": Let, "in": In,
	"type": Type, "try": Try, "catch": Catch, "new": New, "spawn": Spawn, "event": Event, "impl": Impl,
	"with": With, "templ": Templ, "trigger": Trigger, "_": Underscore,
}

var verifKeywordList = []string{"true", "on", "false", "off", "null", "none", "pub", "fn", "if", "else", "match", "for", "while",
	"loop", "break", "continue", "return", "import", "as", "from", "let", "in", "type", "try", "catch", "new", "spawn",
	"event", "impl", "with", "templ", "trigger", "_"}

func verifRefNext(p []rune, i int) verifRefTok {
	n := len(p)
	// whitespace and comments
	for {
		if i >= n {
			return verifRefTok{kind: EOF, isEOF: true, start: n, end: n, next: n}
		}
		c := p[i]
		if c == ' ' || c == '\n' || c == '\t' || c == '\r' {
			i++
			continue
		}
		if c == '/' && i+1 < n && p[i+1] == '/' {
			i += 2
			for i < n && p[i] != '\n' {
				i++
			}
			if i < n {
				i++ // the line feed
			}
			continue
		}
		if c == '/' && i+1 < n && p[i+1] == '*' {
			i += 2
			closed := false
			for i+1 < n {
				if p[i] == '*' && p[i+1] == '/' {
					i += 2
					closed = true
					break
				}
				i++
			}
			if !closed {
				return verifRefTok{anyOf: true, start: n, end: n, next: n}
			}
			continue
		}
		break
	}
	s := i
	c := p[i]
	has := func(k int, r rune) bool { return i+k < n && p[i+k] == r }
	tok := func(kind TokenKind, value string, length int) verifRefTok {
		return verifRefTok{kind: kind, value: value, start: s, end: s + length - 1, next: s + length}
	}
	switch c {
	case '#':
		return tok(HashTag, "#", 1)
	case '?':
		return tok(QuestionMark, "?", 1)
	case '@':
		return tok(AtSymbol, "@", 1)
	case '$':
		return tok(DollarSymbol, "$", 1)
	case ';':
		return tok(Semicolon, ";", 1)
	case ',':
		return tok(Comma, ",", 1)
	case ':':
		return tok(Colon, ":", 1)
	case '(':
		return tok(LParen, "(", 1)
	case ')':
		return tok(RParen, ")", 1)
	case '{':
		return tok(LCurly, "{", 1)
	case '}':
		return tok(RCurly, "}", 1)
	case '[':
		return tok(LBracket, "[", 1)
	case ']':
		return tok(RBracket, "]", 1)
	case '.':
		if has(1, '.') {
			return tok(DoubleDot, "..", 2)
		}
		return tok(Dot, ".", 1)
	case '~':
		if has(1, '>') {
			return tok(TildeArrow, "~>", 2)
		}
		return verifRefTok{isErr: true, start: s, end: s, next: s}
	case '=':
		if has(1, '=') {
			return tok(Equal, "==", 2)
		}
		if has(1, '>') {
			return tok(FatArrow, "=>", 2)
		}
		return tok(Assign, "=", 1)
	case '|':
		if has(1, '|') {
			return tok(Or, "||", 2)
		}
		if has(1, '=') {
			return tok(BitOrAssign, "|=", 2)
		}
		return tok(BitOr, "|", 1)
	case '&':
		if has(1, '&') {
			return tok(And, "&&", 2)
		}
		if has(1, '=') {
			return tok(BitAndAssign, "&=", 2)
		}
		return tok(BitAnd, "&", 1)
	case '^':
		if has(1, '=') {
			return tok(BitXorAssign, "^=", 2)
		}
		return tok(BitXor, "^", 1)
	case '!':
		if has(1, '=') {
			return tok(NotEqual, "!=", 2)
		}
		return tok(Not, "!", 1)
	case '<':
		if has(1, '<') {
			if has(2, '=') {
				return tok(ShiftLeftAssign, "<<=", 3)
			}
			return tok(ShiftLeft, "<<", 2)
		}
		if has(1, '=') {
			return tok(LessThanEqual, "<=", 2)
		}
		return tok(LessThan, "<", 1)
	case '>':
		if has(1, '>') {
			if has(2, '=') {
				return tok(ShiftRightAssign, ">>=", 3)
			}
			return tok(ShiftRight, ">>", 2)
		}
		if has(1, '=') {
			return tok(GreaterThanEqual, ">=", 2)
		}
		return tok(GreaterThan, ">", 1)
	case '+':
		if has(1, '=') {
			return tok(PlusAssign, "+=", 2)
		}
		return tok(Plus, "+", 1)
	case '-':
		if has(1, '=') {
			return tok(MinusAssign, "-=", 2)
		}
		if has(1, '>') {
			return tok(Arrow, "->", 2)
		}
		return tok(Minus, "-", 1)
	case '*':
		if has(1, '*') {
			if has(2, '=') {
				return tok(PowerAssign, "**=", 3)
			}
			return tok(Power, "**", 2)
		}
		if has(1, '=') {
			return tok(MultiplyAssign, "*=", 2)
		}
		return tok(Multiply, "*", 1)
	case '/':
		if has(1, '=') {
			return tok(DivideAssign, "/=", 2)
		}
		return tok(Divide, "/", 1)
	case '%':
		if has(1, '=') {
			return tok(ModuloAssign, "%=", 2)
		}
		return tok(Modulo, "%", 1)
	case '"', '\'':
		return verifRefString(p, i)
	}
	if vIsDigit(c) {
		// number = DIGIT {DIGIT|'_'} [ 'f' | '.' DIGIT {DIGIT|'_'} ]
		val := string(c)
		j := i + 1
		for j < n && (vIsDigit(p[j]) || p[j] == '_') {
			if p[j] != '_' {
				val += string(p[j])
			}
			j++
		}
		kind := Int
		if j < n && p[j] == 'f' {
			kind = Float
			j++
		} else if j+1 < n && p[j] == '.' && vIsDigit(p[j+1]) {
			kind = Float
			val += "."
			j++
			for j < n && (vIsDigit(p[j]) || p[j] == '_') {
				if p[j] != '_' {
					val += string(p[j])
				}
				j++
			}
		}
		return verifRefTok{kind: kind, value: val, start: s, end: j - 1, next: j}
	}
	if vIsLetter(c) {
		val := string(c)
		j := i + 1
		for j < n && (vIsLetter(p[j]) || vIsDigit(p[j])) {
			val += string(p[j])
			j++
		}
		kind := Identifier
		for _, kw := range verifKeywordList {
			if len(kw) == j-i && val == kw {
				kind = verifKeywords[kw]
				break
			}
		}
		return verifRefTok{kind: kind, value: val, start: s, end: j - 1, next: j}
	}
	return verifRefTok{isErr: true, start: s, end: s, next: s}
}

func verifRefString(p []rune, i int) verifRefTok {
	n := len(p)
	s := i
	q := p[i]
	j := i + 1
	val := ""
	lenient := false
	for {
		if j >= n {
			return verifRefTok{isErr: true, start: s, end: n, next: n}
		}
		c := p[j]
		if c == q {
			return verifRefTok{kind: String, value: val, start: s, end: j, next: j + 1, lenient: lenient}
		}
		if c != '\\' {
			val += string(c)
			j++
			continue
		}
		// escape sequence
		if j+1 >= n {
			return verifRefTok{isErr: true, start: s, end: n, next: n}
		}
		e := p[j+1]
		switch e {
		case '\\':
			val += "\\"
			j += 2
			continue
		case '\'':
			val += "'"
			j += 2
			continue
		case '"':
			val += "\""
			j += 2
			continue
		case 'b':
			val += "\b"
			j += 2
			continue
		case 'n':
			val += "\n"
			j += 2
			continue
		case 'r':
			val += "\r"
			j += 2
			continue
		case 't':
			val += "\t"
			j += 2
			continue
		}
		digits, radix := 0, rune(16)
		first := j + 2
		switch {
		case e == 'x':
			digits = 2
		case e == 'u':
			digits = 4
		case e == 'U':
			digits = 8
		case vIsOctal(e):
			digits, radix, first = 3, 8, j+1
		default:
			return verifRefTok{isErr: true, start: s, end: n, next: n}
		}
		var code rune
		for k := 0; k < digits; k++ {
			if first+k >= n {
				return verifRefTok{isErr: true, start: s, end: n, next: n}
			}
			d := p[first+k]
			if radix == 8 {
				if !vIsOctal(d) {
					return verifRefTok{isErr: true, start: s, end: n, next: n}
				}
				code = code*8 + (d - '0')
			} else {
				if !vIsHex(d) {
					return verifRefTok{isErr: true, start: s, end: n, next: n}
				}
				if k == 0 && digits == 8 && vHexVal(d) >= 8 {
					lenient = true // beyond int32: no Unicode scalar anyway
				}
				code = code*16 + vHexVal(d)
			}
		}
		if code < 0 || code > 0x10FFFF || (code >= 0xD800 && code <= 0xDFFF) {
			lenient = true // not a Unicode scalar value: error or U+FFFD accepted
			val += "�"
		} else {
			val += string(code)
		}
		j = first + digits
	}
}

// verifLocAt computes the location of rune offset off, given the location of offset 0.
func verifLocAt(p []rune, base errors.Location, off int) errors.Location {
	l := base
	for k := 0; k < off && k < len(p); k++ {
		l.Index++
		if p[k] == '\n' {
			l.Line++
			l.Column = 1
		} else {
			l.Column++
		}
	}
	return l
}

func verifKindName(k TokenKind) string { return fmt.Sprintf("kind%d", int(k)) }
