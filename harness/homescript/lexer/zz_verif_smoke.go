package lexer

import (
	"fmt"

	"github.com/smarthome-go/homescript/v3/homescript/errors"
)

func verifMkLexer(prog []rune) Lexer {
	lx := NewLexer("", "f.hms")
	lx.program = prog
	if len(prog) > 0 {
		lx.currentChar = &prog[0]
	}
	if len(prog) > 1 {
		lx.nextChar = &prog[1]
	}
	return lx
}

func verifValidRune(r rune) bool {
	return r >= 0 && r <= 0x10FFFF && !(r >= 0xD800 && r <= 0xDFFF)
}

func VerifHarness_LexSmoke() {
	K := errors.VerifParam("K", 3)
	n := errors.VerifNdIntRange("len", 0, K)
	prog := make([]rune, n)
	for i := range prog {
		r := errors.VerifNdRune(fmt.Sprintf("r%d", i))
		errors.VerifAssume(verifValidRune(r))
		prog[i] = r
	}
	lx := verifMkLexer(prog)
	before := lx.currentIndex
	var tok Token
	var err *errors.Error
	panicked, msg := errors.VerifPanics(func() { tok, err = lx.NextToken() })
	if panicked {
		errors.VerifTag("panic", errors.VerifNorm(msg))
	}
	errors.VerifAssert("no-panic", !panicked)
	if panicked {
		return
	}
	errors.VerifReached("returned")
	if err == nil && tok.Kind != EOF {
		errors.VerifAssert("progress", lx.currentIndex > before)
		errors.VerifAssert("cursor-in-range", lx.currentIndex <= n+1)
	}
}

// VerifLexerFromRunes: a lexer over the given runes (which may be solver variables), for harnesses of other packages.
func VerifLexerFromRunes(prog []rune) Lexer { return verifMkLexer(prog) }
