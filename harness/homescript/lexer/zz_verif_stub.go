package lexer

import (
	"fmt"

	"github.com/smarthome-go/homescript/v3/homescript/errors"
)

// Stub lexer: inside the engine `(*Lexer).NextToken` is overridden by
// VerifStubNextToken for every lexer whose file name is VerifStubFile; such a
// lexer serves a scripted token sequence whose token KINDS may be solver
// variables. All other lexers (imported modules, reference parses) run the
// real NextToken. Natively (replay) nothing is overridden: harnesses render
// the script back to text and use the real lexer.

const VerifStubFile = "stub.hms"

type VerifStubTok struct {
	Kind  TokenKind
	Value string
	IsErr bool
}

var verifStub struct {
	toks   []VerifStubTok
	pos    int
	sticky bool
}

// VerifStubSet installs the script served to lexers of VerifStubFile.
func VerifStubSet(toks []VerifStubTok, sticky bool) {
	verifStub.toks = toks
	verifStub.pos = 0
	verifStub.sticky = sticky
}

func VerifStubNextToken(l *Lexer) (Token, *errors.Error) {
	if l.filename != VerifStubFile {
		return l.NextToken() // the engine does not redirect calls made from inside the replacement
	}
	n := uint(verifStub.pos)
	loc := errors.Location{Line: 1, Column: 1 + 2*n, Index: 2 * n}
	span := errors.Span{Start: loc, End: loc, Filename: l.filename}
	if verifStub.pos >= len(verifStub.toks) {
		return Token{Kind: EOF, Value: "EOF", Span: span}, nil
	}
	t := verifStub.toks[verifStub.pos]
	if !(t.IsErr && verifStub.sticky) {
		verifStub.pos++
	}
	if t.IsErr {
		return UnknownToken(loc), errors.NewError(span, "illegal character", errors.SyntaxError)
	}
	return Token{Kind: t.Kind, Value: t.Value, Span: span}, nil
}

func VerifStubKindString(k TokenKind) string { return "<token>" }

const VerifMaxKind = uint8(Identifier)

// VerifRender turns a token script back into source text for the real lexer.
func VerifRender(toks []VerifStubTok) string {
	s := ""
	for _, t := range toks {
		if t.IsErr {
			s += "§ " // an illegal character: reported without being consumed (sticky)
			continue
		}
		switch t.Kind {
		case Identifier, Int, Float:
			s += t.Value
		case String:
			s += "\"" + t.Value + "\""
		case Underscore:
			s += "_"
		case BitAnd:
			s += "&" // TokenKind.String has no case for BitAnd
		default:
			s += t.Kind.String()
		}
		s += " "
	}
	return s
}

// VerifLexAll tokenises text with the real lexer (no stub involvement: file name differs).
func VerifLexAll(text string) []VerifStubTok {
	lx := NewLexer(text, "seed.hms")
	var out []VerifStubTok
	for {
		t, err := lx.NextToken()
		if err != nil {
			panic(fmt.Sprintf("seed does not lex: %s", err.Message))
		}
		if t.Kind == EOF {
			return out
		}
		out = append(out, VerifStubTok{Kind: t.Kind, Value: t.Value})
	}
}

// VerifValueFor gives a token of (possibly symbolic) kind a lexeme the real lexer could have produced.
func VerifValueFor(kind TokenKind, name string) string {
	switch kind {
	case Identifier:
		return []string{"x", "on", "main", "nothere"}[errors.VerifNdIntRange(name, 0, 3)]
	case Int:
		return "1"
	case Float:
		return "1.5"
	case String:
		return "s"
	}
	return ""
}
