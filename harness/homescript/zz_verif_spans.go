package homescript

import (
	"fmt"
	"strings"

	"github.com/smarthome-go/homescript/v3/homescript/diagnostic"
	"github.com/smarthome-go/homescript/v3/homescript/errors"
	"github.com/smarthome-go/homescript/v3/homescript/lexer"
)

// C08: reported positions are real and can be rendered.

// verifSpanValid: B.6 for a concrete text. Whole-file position: all line/column fields zero.
func verifSpanValid(sp errors.Span, text string) bool {
	if sp.Start.Line == 0 && sp.Start.Column == 0 && sp.End.Line == 0 && sp.End.Column == 0 {
		return true
	}
	lines := strings.Split(text, "\n")
	n := uint(len(lines))
	if sp.Start.Line < 1 || sp.End.Line < sp.Start.Line || sp.End.Line > n {
		return false
	}
	if sp.Start.Column < 1 || sp.End.Column < 1 {
		return false
	}
	if sp.Start.Column > uint(len([]rune(lines[sp.Start.Line-1])))+1 || sp.End.Column > uint(len([]rune(lines[sp.End.Line-1])))+1 {
		return false
	}
	if sp.Start.Line == sp.End.Line && sp.End.Column < sp.Start.Column {
		return false
	}
	return true
}

// VerifHarness_RenderSpans: both renderers succeed on every VALID span of a text drawn from line-shape classes;
// all six span fields are solver variables constrained only by validity (B.6).
func VerifHarness_RenderSpans() {
	nl := errors.VerifNdIntRange("lines", 1, errors.VerifParam("L", 3))
	text := ""
	lens := make([]int, nl)
	for i := 0; i < nl; i++ {
		lens[i] = errors.VerifNdIntRange(fmt.Sprintf("len%d", i), 0, 3)
		if i > 0 {
			text += "\n"
		}
		text += strings.Repeat("x", lens[i])
	}
	renderer := errors.VerifNdIntRange("renderer", 0, 1)
	whole := errors.VerifNdIntRange("wholefile", 0, 1) == 1
	errors.VerifTag("renderer", []string{"errors.Error.Display", "diagnostic.Diagnostic.Display"}[renderer])
	errors.VerifTag("wholefile", fmt.Sprint(whole))
	var sp errors.Span
	sp.Filename = "f.hms"
	if !whole {
		sl, sc := errors.VerifNdUint("sl"), errors.VerifNdUint("sc")
		el, ec := errors.VerifNdUint("el"), errors.VerifNdUint("ec")
		errors.VerifAssume(sl >= 1)
		errors.VerifAssume(sl <= el)
		errors.VerifAssume(el <= uint(nl))
		errors.VerifAssume(sc >= 1)
		errors.VerifAssume(ec >= 1)
		// columns within their lines (+1: the position just behind the last character)
		for i := 0; i < nl; i++ {
			errors.VerifAssume(errors.VerifImplies(sl == uint(i+1), sc <= uint(lens[i])+1))
			errors.VerifAssume(errors.VerifImplies(el == uint(i+1), ec <= uint(lens[i])+1))
		}
		errors.VerifAssume(errors.VerifImplies(sl == el, sc <= ec))
		sp.Start = errors.Location{Line: sl, Column: sc, Index: errors.VerifNdUint("si")}
		sp.End = errors.Location{Line: el, Column: ec, Index: errors.VerifNdUint("ei")}
	}
	panicked, msg := errors.VerifPanics(func() {
		if renderer == 0 {
			errors.Error{Kind: errors.SyntaxError, Message: "m", Span: sp}.Display(text)
		} else {
			diagnostic.Diagnostic{Level: diagnostic.DiagnosticLevelError, Message: "m", Span: sp}.Display(text)
		}
	})
	if panicked {
		errors.VerifTag("panic", errors.VerifNorm(msg))
	}
	errors.VerifReached("rendered")
	errors.VerifAssert("rendering-a-valid-position-succeeds", !panicked)
}

var verifSpanLexemes = []string{"", "x", "1", "\"s\"", "(", ")", "{", "}", ";", "=", "+", "fn", "let", "§", "\n", "/* c */", "1.", "'"}

// VerifHarness_ReportedSpans: seed programs with one token replaced by / followed by a lexeme from a list (incl. nothing,
// an illegal character, a newline, an unterminated string) or truncated: every syntax error and diagnostic names a valid
// position of the text and can be rendered.
func VerifHarness_ReportedSpans() {
	seed := errors.VerifNdIntRange("seed", 0, len(verifSeeds)-1)
	toks := lexer.VerifLexAll(verifSeeds[seed])
	mode := errors.VerifNdIntRange("mode", 0, 2) // replace, insert after, truncate
	pos := errors.VerifNdIntRange("pos", 0, len(toks)-1)
	lex := verifSpanLexemes[errors.VerifNdIntRange("lexeme", 0, len(verifSpanLexemes)-1)]
	multiline := errors.VerifNdIntRange("multiline", 0, 1) == 1
	errors.VerifTag("__edit", fmt.Sprintf("seed%d mode%d pos%d %q", seed, mode, pos, lex))
	text := ""
	sep := " "
	if multiline {
		sep = "\n"
	}
	for i, t := range toks {
		piece := lexer.VerifRender([]lexer.VerifStubTok{t})
		switch {
		case i == pos && mode == 0:
			piece = lex
		case i == pos && mode == 1:
			piece += sep + lex
		case i >= pos && mode == 2:
			piece = ""
		}
		text += piece + sep
	}
	if mode == 2 {
		text += lex
	}
	host := verifHost{modules: verifSeedModules}
	var an verifAnalysis
	panicked, msg := errors.VerifPanics(func() { an = verifAnalyzeWith(text, host, true) })
	if panicked {
		errors.VerifTag("panic", errors.VerifNorm(msg))
		errors.VerifReached("analysis-panicked") // C05's subject
		return
	}
	errors.VerifReached("analysed")
	for _, e := range an.syntax {
		ok := verifSpanValid(e.Span, text)
		if !ok {
			errors.VerifTag("message", errors.VerifNorm(e.Message))
		}
		errors.VerifAssert("syntax-error-position-is-inside-the-text", ok)
		errors.VerifAssert("syntax-error-names-the-file", e.Span.Filename == verifFile)
		errors.VerifUntag("message")
		if ok {
			p, m := errors.VerifPanics(func() { e.Display(text) })
			if p {
				errors.VerifTag("panic", errors.VerifNorm(m))
			}
			errors.VerifAssert("syntax-error-renders", !p)
			errors.VerifUntag("panic")
		}
	}
	for _, d := range an.diags {
		if d.Span.Filename != verifFile {
			continue // positions inside the imported module refer to its text
		}
		ok := verifSpanValid(d.Span, text)
		if !ok {
			errors.VerifTag("message", errors.VerifNorm(d.Message))
		}
		errors.VerifAssert("diagnostic-position-is-inside-the-text", ok)
		errors.VerifUntag("message")
		if ok {
			p, m := errors.VerifPanics(func() { d.Display(text) })
			if p {
				errors.VerifTag("panic", errors.VerifNorm(m))
			}
			errors.VerifAssert("diagnostic-renders", !p)
			errors.VerifUntag("panic")
		}
	}
}

func verifAnalyzeWith(code string, host verifHost, needMain bool) verifAnalysis {
	mods, diags, syn := Analyze(InputProgram{ProgramText: code, Filename: verifFile}, verifAnalyzerScope(nil), host, needMain)
	r := verifAnalysis{modules: mods, diags: diags, syntax: syn}
	r.hasError = len(syn) > 0
	for _, d := range diags {
		if d.Level == diagnostic.DiagnosticLevelError {
			r.hasError = true
		}
	}
	return r
}

// VerifHarness_RuntimeSpans: interrupt spans and caught-exception positions lie within the construct that failed.
// The number of blank lines before the failing construct is a selector, the failing values are host inputs.
func VerifHarness_RuntimeSpans() {
	pad := errors.VerifNdIntRange("pad", 0, 2)
	kind := errors.VerifNdIntRange("kind", 0, 5)
	backend := errors.VerifNdIntRange("backend", 0, 1)
	errors.VerifTag("kind", []string{"uncaught-throw", "caught-throw", "index-fatal", "division-fatal", "caught-throw-as-block-value", "uncaught-throw-as-let-value"}[kind])
	errors.VerifTag("backend", []string{"vm", "tree"}[backend])
	blank := strings.Repeat("\n", pad)
	// statements that precede the failing construct in the same function: each compiles to jumps and labels
	// (the VM's source map is relocated around them) and occupies exactly one line
	preludes := []string{
		"",
		"  if 1 > 2 { println(0); } else { println(1); }\n",
		"  let w = 0; while w < 2 { w += 1; }\n",
		"  try { println(2); } catch e { println(e.message); }\n",
		"  for i in 0..2 { if i == 1 { continue; } }\n",
		"  let m = match 2 { 1 => 10, 2 => 20, _ => 30 }; println(m);\n",
		"  if 1 < 2 { println(3); }\n  loop { break; }\n",
	}
	pre := errors.VerifNdIntRange("prelude", 0, len(preludes)-1)
	errors.VerifTag("prelude", fmt.Sprint(pre))
	prelude := preludes[pre]
	preOut := []string{"", "1\n", "", "2\n", "", "20\n", "3\n"}[pre]
	var code string
	line := uint(2 + pad + strings.Count(prelude, "\n")) // line of the failing construct
	switch kind {
	case 0:
		code = "fn main() {\n" + blank + prelude + "  throw(\"boom\");\n}\n"
	case 1:
		code = "fn f() {\n" + blank + prelude + "  throw(\"boom\");\n}\nfn main() {\n  try { f(); } catch e { println(e.line, e.column, e.message); }\n}\n"
	case 2:
		code = "fn main() {\n" + blank + prelude + "  let l = [1]; println(l[A]);\n}\n"
	case 3:
		code = "fn main() {\n" + blank + prelude + "  println(1 / A);\n}\n"
	case 4:
		// the throw is the value of the try block (no statement of its own), one line below the `try`
		code = "fn main() {\n" + blank + prelude + "  try {\n    throw(\"boom\")\n  } catch e { println(e.line, e.message); }\n}\n"
	case 5:
		// the throw is the initializer of a let, one line below the `let`
		code = "fn main() {\n" + blank + prelude + "  let x =\n    throw(\"boom\");\n}\n"
	}
	a := errors.VerifNdInt64("A")
	if kind == 2 {
		errors.VerifAssume(a >= 5)
	}
	if kind == 3 {
		errors.VerifAssume(a == 0)
	}
	inputs := []verifInput{{name: "A", kind: 'i', i: a}}
	an := verifAnalyze(code, nil, inputs, true)
	if an.hasError {
		errors.VerifInconclusive("runtime span program rejected: " + an.describe())
	}
	errors.VerifTag("__ignore_panic", "C02")
	var o verifOutcome
	p, _ := errors.VerifPanics(func() {
		if backend == 0 {
			o = verifRunVM(an, nil, inputs, verifLimits, newVerifCtx())
		} else {
			o = verifRunTree(an, nil, inputs, 100, newVerifCtx())
		}
	})
	if p {
		return
	}
	errors.VerifReached("ran")
	if kind == 4 {
		errors.VerifTag("got", errors.VerifNorm(o.out))
		errors.VerifAssert("caught-exception-carries-the-throw-position", verifHasPrefix(o.out, preOut+fmt.Sprint(line+1)+" boom"))
		return
	}
	if kind == 5 {
		line++
	}
	if kind == 1 {
		errors.VerifAssert("caught-exception-carries-the-throw-position", verifHasPrefix(o.out, preOut+fmt.Sprint(line)+" 3 boom") || verifHasPrefix(o.out, preOut+fmt.Sprint(line)+" 8 boom"))
		return
	}
	if backend == 1 && kind != 2 && kind != 3 {
		return // the tree interpreter's uncaught throw keeps the span inside the interrupt message only
	}
	errors.VerifAssert("interrupt-position-is-inside-the-text", verifSpanValid(o.span, code))
	errors.VerifAssert("interrupt-position-names-the-file", o.span.Filename == verifFile)
	errors.VerifAssert("interrupt-position-lies-in-the-failing-construct", o.span.Start.Line == line && o.span.End.Line == line)
}

// verifCheckReportedSpans: every syntax error and diagnostic of one analysis names a position inside `text`
// (or the whole-file position), names the file, and renders.
func verifCheckReportedSpans(an verifAnalysis, text string) {
	for _, e := range an.syntax {
		ok := verifSpanValid(e.Span, text)
		if !ok {
			errors.VerifTag("message", errors.VerifNorm(e.Message))
		}
		errors.VerifAssert("syntax-error-position-is-inside-the-text", ok)
		errors.VerifUntag("message")
		if ok {
			p, m := errors.VerifPanics(func() { e.Display(text) })
			if p {
				errors.VerifTag("panic", errors.VerifNorm(m))
			}
			errors.VerifAssert("syntax-error-renders", !p)
			errors.VerifUntag("panic")
		}
	}
	for _, d := range an.diags {
		if d.Span.Filename != verifFile {
			continue // positions inside an imported module refer to its text
		}
		ok := verifSpanValid(d.Span, text)
		if !ok {
			errors.VerifTag("message", errors.VerifNorm(d.Message))
		}
		errors.VerifAssert("diagnostic-position-is-inside-the-text", ok)
		errors.VerifUntag("message")
		if ok {
			p, m := errors.VerifPanics(func() { d.Display(text) })
			if p {
				errors.VerifTag("panic", errors.VerifNorm(m))
			}
			errors.VerifAssert("diagnostic-renders", !p)
			errors.VerifUntag("panic")
		}
	}
	errors.VerifReached("spans-checked")
}

// verifSpanOverlaps: the (valid, non-whole-file) span shares at least one character with an occurrence of culprit.
func verifSpanOverlaps(sp errors.Span, text string, culprit string) bool {
	if sp.Start.Line == 0 || culprit == "" {
		return false
	}
	lines := strings.Split(text, "\n")
	offset := func(line, col uint) int {
		o := 0
		for i := uint(0); i+1 < line && int(i) < len(lines); i++ {
			o += len([]rune(lines[i])) + 1
		}
		return o + int(col) - 1
	}
	a, b := offset(sp.Start.Line, sp.Start.Column), offset(sp.End.Line, sp.End.Column)
	runes := []rune(text)
	cr := []rune(culprit)
	for i := 0; i+len(cr) <= len(runes); i++ {
		match := true
		for k := range cr {
			if runes[i+k] != cr[k] {
				match = false
				break
			}
		}
		if match && a <= i+len(cr)-1 && b >= i {
			return true
		}
	}
	return false
}

// verifCheckReportedSpansIn: like verifCheckReportedSpans for a module graph: every position is checked against the
// text of the module its filename names.
func verifCheckReportedSpansIn(an verifAnalysis, modules map[string]string) {
	for _, e := range an.syntax {
		text, known := modules[e.Span.Filename]
		errors.VerifTag("message", errors.VerifNorm(e.Message))
		errors.VerifAssert("syntax-error-names-a-module-of-the-graph", known)
		if known {
			ok := verifSpanValid(e.Span, text)
			errors.VerifAssert("syntax-error-position-is-inside-the-text", ok)
			if ok {
				p, _ := errors.VerifPanics(func() { e.Display(text) })
				errors.VerifAssert("syntax-error-renders", !p)
			}
		}
		errors.VerifUntag("message")
	}
	for _, d := range an.diags {
		text, known := modules[d.Span.Filename]
		if !known {
			continue // whole-program diagnostics carry no position
		}
		errors.VerifTag("message", errors.VerifNorm(d.Message))
		ok := verifSpanValid(d.Span, text)
		errors.VerifAssert("diagnostic-position-is-inside-the-text", ok)
		if ok {
			p, _ := errors.VerifPanics(func() { d.Display(text) })
			errors.VerifAssert("diagnostic-renders", !p)
		}
		errors.VerifUntag("message")
	}
	errors.VerifReached("spans-checked")
}
