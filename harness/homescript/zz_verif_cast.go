package homescript

import (
	"fmt"

	"github.com/smarthome-go/homescript/v3/homescript/analyzer/ast"
	herrors "github.com/smarthome-go/homescript/v3/homescript/errors"
	ivalue "github.com/smarthome-go/homescript/v3/homescript/interpreter/value"
	pAst "github.com/smarthome-go/homescript/v3/homescript/parser/ast"
	vvalue "github.com/smarthome-go/homescript/v3/homescript/runtime/value"
)

// C12: symbolic (value, type) pairs for DeepCast of both value libraries,
// against the conformance reference of DESIGN appendix B.4.

// value shape: n null, i int, f float, b bool, s str, r range, l list, o object, a any-object, N none, S some
type cvv struct {
	k    byte
	kids []*cvv
	keys []string
	i    int64
	f    float64
	b    bool
}

// type shape: n null, i int, f float, b bool, s str, r range, l list, o object, a any-object, O option, A any
type cvt struct {
	k    byte
	kids []*cvt
	keys []string
}

var cvKeySets = [][]string{{}, {"a"}, {"b"}, {"a", "b"}}

func cvGenValue(depth int, name string) *cvv {
	kinds := "nifbsrNlaoS"
	max := len(kinds) - 1
	if depth == 0 {
		max = 6 // leaves only
	}
	k := kinds[herrors.VerifNdIntRange(name+"_k", 0, max)]
	v := &cvv{k: k}
	switch k {
	case 'i':
		v.i = herrors.VerifNdInt64(name + "_i")
	case 'f':
		v.f = herrors.VerifNdFloat64(name + "_f")
	case 'b':
		v.b = herrors.VerifNdBool(name + "_b")
	case 'l':
		n := herrors.VerifNdIntRange(name+"_n", 0, 2)
		for c := 0; c < n; c++ {
			v.kids = append(v.kids, cvGenValue(depth-1, fmt.Sprintf("%s_%d", name, c)))
		}
	case 'o':
		v.keys = cvKeySets[herrors.VerifNdIntRange(name+"_keys", 0, 3)]
		for _, key := range v.keys {
			v.kids = append(v.kids, cvGenValue(depth-1, name+"_"+key))
		}
	case 'S':
		v.kids = []*cvv{cvGenValue(depth-1, name+"_in")}
	}
	return v
}

func cvGenType(depth int, name string) *cvt {
	kinds := "nifbsraAloO"
	max := len(kinds) - 1
	if depth == 0 {
		max = 8 // leaves, plus the option of an int as the one composite leaf (optional object fields, lists of options)
	}
	ki := herrors.VerifNdIntRange(name+"_k", 0, max)
	if depth == 0 && ki == 8 {
		return &cvt{k: 'O', kids: []*cvt{{k: 'i'}}}
	}
	k := kinds[ki]
	t := &cvt{k: k}
	switch k {
	case 'l', 'O':
		t.kids = []*cvt{cvGenType(depth-1, name+"_in")}
	case 'o':
		t.keys = cvKeySets[herrors.VerifNdIntRange(name+"_keys", 0, 3)]
		for _, key := range t.keys {
			t.kids = append(t.kids, cvGenType(depth-1, name+"_"+key))
		}
	}
	return t
}

func (v *cvv) String() string {
	s := string(v.k)
	if len(v.kids) > 0 || v.k == 'o' || v.k == 'l' {
		s += "("
		for i, c := range v.kids {
			if i > 0 {
				s += ","
			}
			if v.k == 'o' {
				s += v.keys[i] + ":"
			}
			s += c.String()
		}
		s += ")"
	}
	return s
}

func (t *cvt) String() string {
	s := string(t.k)
	if len(t.kids) > 0 || t.k == 'o' {
		s += "("
		for i, c := range t.kids {
			if i > 0 {
				s += ","
			}
			if t.k == 'o' {
				s += t.keys[i] + ":"
			}
			s += c.String()
		}
		s += ")"
	}
	return s
}

func (t *cvt) ast() ast.Type {
	sp := herrors.Span{}
	switch t.k {
	case 'n':
		return ast.NewNullType(sp)
	case 'i':
		return ast.NewIntType(sp)
	case 'f':
		return ast.NewFloatType(sp)
	case 'b':
		return ast.NewBoolType(sp)
	case 's':
		return ast.NewStringType(sp)
	case 'r':
		return ast.NewRangeType(sp)
	case 'a':
		return ast.NewAnyObjectType(sp)
	case 'A':
		return ast.NewAnyType(sp)
	case 'l':
		return ast.NewListType(t.kids[0].ast(), sp)
	case 'O':
		return ast.NewOptionType(t.kids[0].ast(), sp)
	}
	var fields []ast.ObjectTypeField
	for i, key := range t.keys {
		fields = append(fields, ast.NewObjectTypeField(pAst.NewSpannedIdent(key, sp), t.kids[i].ast(), sp))
	}
	return ast.NewObjectType(fields, sp)
}

func (v *cvv) vm() *vvalue.Value {
	switch v.k {
	case 'n':
		return vvalue.NewValueNull()
	case 'i':
		return vvalue.NewValueInt(v.i)
	case 'f':
		return vvalue.NewValueFloat(v.f)
	case 'b':
		return vvalue.NewValueBool(v.b)
	case 's':
		return vvalue.NewValueString("s")
	case 'r':
		return vvalue.NewValueRange(*vvalue.NewValueInt(1), *vvalue.NewValueInt(3), false)
	case 'N':
		return vvalue.NewNoneOption()
	case 'S':
		return vvalue.NewValueOption(v.kids[0].vm())
	case 'l':
		items := make([]*vvalue.Value, 0)
		for _, c := range v.kids {
			items = append(items, c.vm())
		}
		return vvalue.NewValueList(items)
	case 'a':
		return vvalue.NewValueAnyObject(map[string]*vvalue.Value{"a": vvalue.NewValueInt(7)})
	}
	fields := map[string]*vvalue.Value{}
	for i, key := range v.keys {
		fields[key] = v.kids[i].vm()
	}
	return vvalue.NewValueObject(fields)
}

func (v *cvv) tree() *ivalue.Value {
	switch v.k {
	case 'n':
		return ivalue.NewValueNull()
	case 'i':
		return ivalue.NewValueInt(v.i)
	case 'f':
		return ivalue.NewValueFloat(v.f)
	case 'b':
		return ivalue.NewValueBool(v.b)
	case 's':
		return ivalue.NewValueString("s")
	case 'r':
		return ivalue.NewValueRange(*ivalue.NewValueInt(1), *ivalue.NewValueInt(3), false)
	case 'N':
		return ivalue.NewNoneOption()
	case 'S':
		return ivalue.NewValueOption(v.kids[0].tree())
	case 'l':
		items := make([]*ivalue.Value, 0)
		for _, c := range v.kids {
			items = append(items, c.tree())
		}
		return ivalue.NewValueList(items)
	case 'a':
		return ivalue.NewValueAnyObject(map[string]*ivalue.Value{"a": ivalue.NewValueInt(7)})
	}
	fields := map[string]*ivalue.Value{}
	for i, key := range v.keys {
		fields[key] = v.kids[i].tree()
	}
	return ivalue.NewValueObject(fields)
}

// cvAdmit is the reference (B.4): is v admitted as T, and what is the admitted value.
func cvAdmit(v *cvv, t *cvt, allow bool) (bool, *cvv) {
	switch t.k {
	case 'A':
		return true, v
	case 'O':
		if v.k == 'N' {
			return true, v
		}
		if v.k == 'S' {
			ok, in := cvAdmit(v.kids[0], t.kids[0], allow)
			if !ok {
				return false, nil
			}
			return true, &cvv{k: 'S', kids: []*cvv{in}}
		}
		ok, in := cvAdmit(v, t.kids[0], allow) // a T into an option of T
		if !ok {
			return false, nil
		}
		return true, &cvv{k: 'S', kids: []*cvv{in}}
	}
	switch v.k {
	case 'i', 'f', 'b':
		if v.k == t.k {
			return true, v
		}
		if !allow || (t.k != 'i' && t.k != 'f' && t.k != 'b') {
			return false, nil
		}
		out := &cvv{k: t.k}
		switch {
		case v.k == 'b' && t.k == 'i':
			if v.b {
				out.i = 1
			}
		case v.k == 'b' && t.k == 'f':
			if v.b {
				out.f = 1
			}
		case v.k == 'i' && t.k == 'b':
			out.b = v.i != 0
		case v.k == 'i' && t.k == 'f':
			out.f = float64(v.i)
		case v.k == 'f' && t.k == 'b':
			out.b = v.f != 0
		case v.k == 'f' && t.k == 'i':
			out.i = int64(v.f)
		}
		return true, out
	case 'n', 's', 'r':
		return v.k == t.k, v
	case 'a':
		return t.k == 'a', v
	case 'l':
		if t.k != 'l' {
			return false, nil
		}
		out := &cvv{k: 'l'}
		for _, c := range v.kids {
			ok, r := cvAdmit(c, t.kids[0], allow)
			if !ok {
				return false, nil
			}
			out.kids = append(out.kids, r)
		}
		return true, out
	case 'o':
		if t.k == 'a' {
			return true, &cvv{k: 'a', keys: v.keys, kids: v.kids}
		}
		if t.k != 'o' || len(v.keys) != len(t.keys) {
			return false, nil
		}
		out := &cvv{k: 'o', keys: v.keys}
		for i, key := range v.keys {
			if t.keys[i] != key { // both drawn from the same ordered key sets
				return false, nil
			}
			ok, r := cvAdmit(v.kids[i], t.kids[i], allow)
			if !ok {
				return false, nil
			}
			out.kids = append(out.kids, r)
		}
		return true, out
	}
	return false, nil // none / some against a non-option type
}

// cvSameVM compares a real VM value with an expected shape (kinds and scalar payloads).
func cvSameVM(got *vvalue.Value, want *cvv) bool {
	if got == nil || *got == nil {
		return false
	}
	g := *got
	switch want.k {
	case 'n':
		return g.Kind() == vvalue.NullValueKind
	case 'i':
		return g.Kind() == vvalue.IntValueKind && g.(vvalue.ValueInt).Inner == want.i
	case 'f':
		if g.Kind() != vvalue.FloatValueKind {
			return false
		}
		x := g.(vvalue.ValueFloat).Inner
		return x == want.f || (x != x && want.f != want.f)
	case 'b':
		return g.Kind() == vvalue.BoolValueKind && g.(vvalue.ValueBool).Inner == want.b
	case 's':
		return g.Kind() == vvalue.StringValueKind
	case 'r':
		return g.Kind() == vvalue.RangeValueKind
	case 'N':
		return g.Kind() == vvalue.OptionValueKind && !g.(vvalue.ValueOption).IsSome()
	case 'S':
		return g.Kind() == vvalue.OptionValueKind && g.(vvalue.ValueOption).IsSome() && cvSameVM(g.(vvalue.ValueOption).Inner, want.kids[0])
	case 'l':
		if g.Kind() != vvalue.ListValueKind {
			return false
		}
		items := *g.(vvalue.ValueList).Values
		if len(items) != len(want.kids) {
			return false
		}
		for i := range items {
			if !cvSameVM(items[i], want.kids[i]) {
				return false
			}
		}
		return true
	case 'a':
		if g.Kind() != vvalue.AnyObjectValueKind {
			return false
		}
		if want.keys != nil { // converted from an object: same key set
			f := g.(vvalue.ValueAnyObject).FieldsInternal
			if len(f) != len(want.keys) {
				return false
			}
			for i, key := range want.keys {
				fv, ok := f[key]
				if !ok || !cvSameVM(fv, want.kids[i]) {
					return false
				}
			}
		}
		return true
	case 'o':
		if g.Kind() != vvalue.ObjectValueKind {
			return false
		}
		f := g.(vvalue.ValueObject).FieldsInternal
		if len(f) != len(want.keys) {
			return false
		}
		for i, key := range want.keys {
			fv, ok := f[key]
			if !ok || !cvSameVM(fv, want.kids[i]) {
				return false
			}
		}
		return true
	}
	return false
}

func cvSameTree(got *ivalue.Value, want *cvv) bool {
	if got == nil || *got == nil {
		return false
	}
	g := *got
	switch want.k {
	case 'n':
		return g.Kind() == ivalue.NullValueKind
	case 'i':
		return g.Kind() == ivalue.IntValueKind && g.(ivalue.ValueInt).Inner == want.i
	case 'f':
		if g.Kind() != ivalue.FloatValueKind {
			return false
		}
		x := g.(ivalue.ValueFloat).Inner
		return x == want.f || (x != x && want.f != want.f)
	case 'b':
		return g.Kind() == ivalue.BoolValueKind && g.(ivalue.ValueBool).Inner == want.b
	case 's':
		return g.Kind() == ivalue.StringValueKind
	case 'r':
		return g.Kind() == ivalue.RangeValueKind
	case 'N':
		return g.Kind() == ivalue.OptionValueKind && !g.(ivalue.ValueOption).IsSome()
	case 'S':
		return g.Kind() == ivalue.OptionValueKind && g.(ivalue.ValueOption).IsSome() && cvSameTree(g.(ivalue.ValueOption).Inner, want.kids[0])
	case 'l':
		if g.Kind() != ivalue.ListValueKind {
			return false
		}
		items := *g.(ivalue.ValueList).Values
		if len(items) != len(want.kids) {
			return false
		}
		for i := range items {
			if !cvSameTree(items[i], want.kids[i]) {
				return false
			}
		}
		return true
	case 'a':
		if g.Kind() != ivalue.AnyObjectValueKind {
			return false
		}
		if want.keys != nil {
			f := g.(ivalue.ValueAnyObject).FieldsInternal
			if len(f) != len(want.keys) {
				return false
			}
			for i, key := range want.keys {
				fv, ok := f[key]
				if !ok || !cvSameTree(fv, want.kids[i]) {
					return false
				}
			}
		}
		return true
	case 'o':
		if g.Kind() != ivalue.ObjectValueKind {
			return false
		}
		f := g.(ivalue.ValueObject).FieldsInternal
		if len(f) != len(want.keys) {
			return false
		}
		for i, key := range want.keys {
			fv, ok := f[key]
			if !ok || !cvSameTree(fv, want.kids[i]) {
				return false
			}
		}
		return true
	}
	return false
}

// VerifHarness_Cast: DeepCast(value, type, allowCasts) of both libraries vs the reference.
func VerifHarness_Cast() {
	d := herrors.VerifParam("depth", 1)
	lib := herrors.VerifNdIntRange("lib", 0, 1)
	allow := herrors.VerifNdIntRange("allow", 0, 1) == 1
	v := cvGenValue(d, "v")
	t := cvGenType(d, "t")
	herrors.VerifTag("lib", []string{"vm", "tree"}[lib])
	cls := string(v.k) + " as " + string(t.k)
	if len(t.kids) == 1 {
		cls += "(" + string(t.kids[0].k) + ")"
	}
	herrors.VerifTag("class", cls+fmt.Sprint(" allow=", allow))
	admitted, want := cvAdmit(v, t, allow)
	typ := t.ast()
	if lib == 0 {
		var res *vvalue.Value
		var cerr *vvalue.CastError
		p, msg := herrors.VerifPanics(func() { res, cerr = vvalue.DeepCast(*v.vm(), typ, herrors.Span{}, allow) })
		if p {
			herrors.VerifTag("panic", herrors.VerifNorm(msg))
		}
		herrors.VerifAssert("no-panic", !p)
		if p {
			return
		}
		herrors.VerifReached("returned")
		if admitted {
			herrors.VerifAssert("conforming-value-admitted", cerr == nil)
			if cerr == nil {
				herrors.VerifAssert("admitted-value-is-the-conversion", cvSameVM(res, want))
			}
		} else {
			herrors.VerifAssert("non-conforming-value-rejected", cerr != nil)
		}
		return
	}
	var res *ivalue.Value
	var intr *ivalue.Interrupt
	p, msg := herrors.VerifPanics(func() { res, intr = ivalue.DeepCast(*v.tree(), typ, herrors.Span{}, allow) })
	if p {
		herrors.VerifTag("panic", herrors.VerifNorm(msg))
	}
	herrors.VerifAssert("no-panic", !p)
	if p {
		return
	}
	herrors.VerifReached("returned")
	if admitted {
		herrors.VerifAssert("conforming-value-admitted", intr == nil)
		if intr == nil {
			herrors.VerifAssert("admitted-value-is-the-conversion", cvSameTree(res, want))
		}
	} else {
		herrors.VerifAssert("non-conforming-value-rejected", intr != nil)
	}
}

// ---- deep, narrow shapes ----

// cvGenValueSpine / cvGenTypeSpine: a chain of D containers (one-element list, Some, one-field object) around a leaf,
// so that conversions strictly inside an element of an element are reached without the width of the full family.
func cvGenValueSpine(depth int, name string) *cvv {
	if depth == 0 {
		return cvGenValue(0, name)
	}
	switch herrors.VerifNdIntRange(name+"_c", 0, 2) {
	case 0:
		return &cvv{k: 'l', kids: []*cvv{cvGenValueSpine(depth-1, name+"_0")}}
	case 1:
		return &cvv{k: 'S', kids: []*cvv{cvGenValueSpine(depth-1, name+"_in")}}
	}
	return &cvv{k: 'o', keys: cvKeySets[1], kids: cvSpineKids(cvKeySets[1], depth, name)}
}

func cvSpineKids(keys []string, depth int, name string) []*cvv {
	var kids []*cvv
	for i, key := range keys {
		if i == 0 {
			kids = append(kids, cvGenValueSpine(depth-1, name+"_"+key))
		} else {
			kids = append(kids, &cvv{k: 'i', i: 7})
		}
	}
	return kids
}

func cvGenTypeSpine(depth int, name string) *cvt {
	if depth == 0 {
		return cvGenType(0, name)
	}
	switch herrors.VerifNdIntRange(name+"_c", 0, 2) {
	case 0:
		return &cvt{k: 'l', kids: []*cvt{cvGenTypeSpine(depth-1, name+"_in")}}
	case 1:
		return &cvt{k: 'O', kids: []*cvt{cvGenTypeSpine(depth-1, name+"_in")}}
	}
	t := &cvt{k: 'o', keys: cvKeySets[1]}
	for i, key := range t.keys {
		if i == 0 {
			t.kids = append(t.kids, cvGenTypeSpine(depth-1, name+"_"+key))
		} else {
			t.kids = append(t.kids, &cvt{k: 'i'})
		}
	}
	return t
}

// VerifHarness_CastSpine: DeepCast on chains of D containers around a leaf (both libraries, with and without casts).
func VerifHarness_CastSpine() {
	d := herrors.VerifParam("depth", 2)
	lib := herrors.VerifNdIntRange("lib", 0, 1)
	allow := herrors.VerifNdIntRange("allow", 0, 1) == 1
	v := cvGenValueSpine(d, "v")
	t := cvGenTypeSpine(d, "t")
	herrors.VerifTag("lib", []string{"vm", "tree"}[lib])
	herrors.VerifTag("class", v.String()+" as "+t.String()+fmt.Sprint(" allow=", allow))
	admitted, want := cvAdmit(v, t, allow)
	typ := t.ast()
	if lib == 0 {
		var res *vvalue.Value
		var cerr *vvalue.CastError
		p, msg := herrors.VerifPanics(func() { res, cerr = vvalue.DeepCast(*v.vm(), typ, herrors.Span{}, allow) })
		if p {
			herrors.VerifTag("panic", herrors.VerifNorm(msg))
		}
		herrors.VerifAssert("no-panic", !p)
		if p {
			return
		}
		herrors.VerifReached("returned")
		if admitted {
			herrors.VerifAssert("conforming-value-admitted", cerr == nil)
			if cerr == nil {
				herrors.VerifAssert("admitted-value-is-the-conversion", cvSameVM(res, want))
			}
		} else {
			herrors.VerifAssert("non-conforming-value-rejected", cerr != nil)
		}
		return
	}
	var res *ivalue.Value
	var intr *ivalue.Interrupt
	p, msg := herrors.VerifPanics(func() { res, intr = ivalue.DeepCast(*v.tree(), typ, herrors.Span{}, allow) })
	if p {
		herrors.VerifTag("panic", herrors.VerifNorm(msg))
	}
	herrors.VerifAssert("no-panic", !p)
	if p {
		return
	}
	herrors.VerifReached("returned")
	if admitted {
		herrors.VerifAssert("conforming-value-admitted", intr == nil)
		if intr == nil {
			herrors.VerifAssert("admitted-value-is-the-conversion", cvSameTree(res, want))
		}
	} else {
		herrors.VerifAssert("non-conforming-value-rejected", intr != nil)
	}
}
