package homescript

import (
	"context"
	"fmt"
	"sort"

	"github.com/smarthome-go/homescript/v3/homescript/analyzer/ast"
	herrors "github.com/smarthome-go/homescript/v3/homescript/errors"
	ivalue "github.com/smarthome-go/homescript/v3/homescript/interpreter/value"
	pAst "github.com/smarthome-go/homescript/v3/homescript/parser/ast"
	vvalue "github.com/smarthome-go/homescript/v3/homescript/runtime/value"
)

// C18: every member the analyzer offers on a type exists on the runtime values
// of that type in both value libraries, accepts the advertised arguments and
// returns a value of the advertised type; index-taking operations obey the
// negative-index / out-of-range law.

var verifMemberKinds = []string{"int", "float", "bool", "str", "range", "list", "anyobj", "object", "object-with-fields-named-like-builtin-members", "list-of-ranges", "list-of-options", "anyobj-with-a-range", "anyobj-with-a-function", "float-concrete", "list-of-floats", "str-unicode", "option"}

type verifSubject struct {
	typ ast.Type
	vm  vvalue.Value
	tr  ivalue.Value
}

func verifSubjectOf(kind string) verifSubject {
	sp := herrors.Span{}
	i := herrors.VerifNdInt64("subj_i")
	switch kind {
	case "int":
		return verifSubject{ast.NewIntType(sp), *vvalue.NewValueInt(i), *ivalue.NewValueInt(i)}
	case "float":
		f := herrors.VerifNdFloat64("subj_f")
		return verifSubject{ast.NewFloatType(sp), *vvalue.NewValueFloat(f), *ivalue.NewValueFloat(f)}
	case "bool":
		b := herrors.VerifNdBool("subj_b")
		return verifSubject{ast.NewBoolType(sp), *vvalue.NewValueBool(b), *ivalue.NewValueBool(b)}
	case "str":
		s := []string{"", "a", "a,b", "12"}[herrors.VerifNdIntRange("subj_s", 0, 3)]
		return verifSubject{ast.NewStringType(sp), *vvalue.NewValueString(s), *ivalue.NewValueString(s)}
	case "range":
		j := herrors.VerifNdInt64("subj_j")
		return verifSubject{ast.NewRangeType(sp),
			*vvalue.NewValueRange(*vvalue.NewValueInt(i), *vvalue.NewValueInt(j), false),
			*ivalue.NewValueRange(*ivalue.NewValueInt(i), *ivalue.NewValueInt(j), false)}
	case "list":
		n := herrors.VerifNdIntRange("subj_n", 0, 2)
		var ve []*vvalue.Value
		var te []*ivalue.Value
		for k := 0; k < n; k++ {
			e := herrors.VerifNdInt64(fmt.Sprintf("subj_e%d", k))
			ve = append(ve, vvalue.NewValueInt(e))
			te = append(te, ivalue.NewValueInt(e))
		}
		return verifSubject{ast.NewListType(ast.NewIntType(sp), sp), *vvalue.NewValueList(ve), *ivalue.NewValueList(te)}
	case "anyobj":
		return verifSubject{ast.NewAnyObjectType(sp),
			*vvalue.NewValueAnyObject(map[string]*vvalue.Value{"a": vvalue.NewValueInt(i)}),
			*ivalue.NewValueAnyObject(map[string]*ivalue.Value{"a": ivalue.NewValueInt(i)})}
	case "object":
		return verifSubject{ast.NewObjectType([]ast.ObjectTypeField{ast.NewObjectTypeField(pAst.NewSpannedIdent("a", sp), ast.NewIntType(sp), sp)}, sp),
			*vvalue.NewValueObject(map[string]*vvalue.Value{"a": vvalue.NewValueInt(i)}),
			*ivalue.NewValueObject(map[string]*ivalue.Value{"a": ivalue.NewValueInt(i)})}
	case "anyobj-with-a-function":
		// a user-defined function stored in an any-object (`a.set("a", helper)`): a VM function value / a function value
		return verifSubject{ast.NewAnyObjectType(sp),
			*vvalue.NewValueAnyObject(map[string]*vvalue.Value{"a": vvalue.NewValueVMFunction("@main.helper"), "b": vvalue.NewValueInt(i)}),
			*ivalue.NewValueAnyObject(map[string]*ivalue.Value{"a": ivalue.NewValueFunction("main", ast.AnalyzedBlock{}, nil), "b": ivalue.NewValueInt(i)})}
	case "float-concrete":
		// the text of a float is not interpreted by the solver: concrete values for the members that render it
		f := []float64{2.0, 2.5, -0.0, 1e21, 0.000001, 123456789.0}[herrors.VerifNdIntRange("subj_fc", 0, 5)]
		return verifSubject{ast.NewFloatType(sp), *vvalue.NewValueFloat(f), *ivalue.NewValueFloat(f)}
	case "list-of-floats":
		return verifSubject{ast.NewListType(ast.NewFloatType(sp), sp),
			*vvalue.NewValueList([]*vvalue.Value{vvalue.NewValueFloat(2.0), vvalue.NewValueFloat(0.5)}),
			*ivalue.NewValueList([]*ivalue.Value{ivalue.NewValueFloat(2.0), ivalue.NewValueFloat(0.5)})}
	case "str-unicode":
		u := []string{"h\u00e9llo", "e\u0301", "\u4e2d\u6587", "a\U0001F600b"}[herrors.VerifNdIntRange("subj_su", 0, 3)]
		return verifSubject{ast.NewStringType(sp), *vvalue.NewValueString(u), *ivalue.NewValueString(u)}
	case "list-of-ranges":
		j := herrors.VerifNdInt64("subj_j")
		return verifSubject{ast.NewListType(ast.NewRangeType(sp), sp),
			*vvalue.NewValueList([]*vvalue.Value{vvalue.NewValueRange(*vvalue.NewValueInt(i), *vvalue.NewValueInt(j), false)}),
			*ivalue.NewValueList([]*ivalue.Value{ivalue.NewValueRange(*ivalue.NewValueInt(i), *ivalue.NewValueInt(j), false)})}
	case "list-of-options":
		return verifSubject{ast.NewListType(ast.NewOptionType(ast.NewIntType(sp), sp), sp),
			*vvalue.NewValueList([]*vvalue.Value{vvalue.NewValueOption(vvalue.NewValueInt(i)), vvalue.NewNoneOption()}),
			*ivalue.NewValueList([]*ivalue.Value{ivalue.NewValueOption(ivalue.NewValueInt(i)), ivalue.NewNoneOption()})}
	case "anyobj-with-a-range":
		j := herrors.VerifNdInt64("subj_j")
		return verifSubject{ast.NewAnyObjectType(sp),
			*vvalue.NewValueAnyObject(map[string]*vvalue.Value{"r": vvalue.NewValueRange(*vvalue.NewValueInt(i), *vvalue.NewValueInt(j), false)}),
			*ivalue.NewValueAnyObject(map[string]*ivalue.Value{"r": ivalue.NewValueRange(*ivalue.NewValueInt(i), *ivalue.NewValueInt(j), false)})}
	case "object-with-fields-named-like-builtin-members":
		// object types (annotations, casts of parsed JSON) may have fields named like the runtime's builtin object
		// members: the analyzer offers them with the field's type
		var tf []ast.ObjectTypeField
		vf := map[string]*vvalue.Value{}
		trf := map[string]*ivalue.Value{}
		for _, name := range []string{"a", "to_string", "keys", "to_json", "to_json_indent"} {
			tf = append(tf, ast.NewObjectTypeField(pAst.NewSpannedIdent(name, sp), ast.NewIntType(sp), sp))
			vf[name] = vvalue.NewValueInt(i)
			trf[name] = ivalue.NewValueInt(i)
		}
		return verifSubject{ast.NewObjectType(tf, sp), *vvalue.NewValueObject(vf), *ivalue.NewValueObject(trf)}
	}
	some := herrors.VerifNdBool("subj_some")
	if some {
		return verifSubject{ast.NewOptionType(ast.NewIntType(sp), sp), *vvalue.NewValueOption(vvalue.NewValueInt(i)), *ivalue.NewValueOption(ivalue.NewValueInt(i))}
	}
	return verifSubject{ast.NewOptionType(ast.NewIntType(sp), sp), *vvalue.NewNoneOption(), *ivalue.NewNoneOption()}
}

// verifArgFor builds one argument of the advertised type in both libraries.
func verifArgFor(t ast.Type, idx int) (vvalue.Value, ivalue.Value, bool) {
	switch t.Kind() {
	case ast.IntTypeKind:
		v := herrors.VerifNdInt64(fmt.Sprintf("arg%d", idx))
		return *vvalue.NewValueInt(v), *ivalue.NewValueInt(v), true
	case ast.FloatTypeKind:
		v := herrors.VerifNdFloat64(fmt.Sprintf("argf%d", idx))
		return *vvalue.NewValueFloat(v), *ivalue.NewValueFloat(v), true
	case ast.BoolTypeKind:
		v := herrors.VerifNdBool(fmt.Sprintf("argb%d", idx))
		return *vvalue.NewValueBool(v), *ivalue.NewValueBool(v), true
	case ast.StringTypeKind:
		s := []string{"", "a", ","}[herrors.VerifNdIntRange(fmt.Sprintf("args%d", idx), 0, 2)]
		return *vvalue.NewValueString(s), *ivalue.NewValueString(s), true
	case ast.ListTypeKind:
		inner := t.(ast.ListType).Inner
		ev, et, ok := verifArgFor(inner, idx+10)
		if !ok {
			return nil, nil, false
		}
		return *vvalue.NewValueList([]*vvalue.Value{&ev}), *ivalue.NewValueList([]*ivalue.Value{&et}), true
	}
	return nil, nil, false
}

func verifTreeTypeKind(k ivalue.ValueKind) ast.TypeKind {
	switch k {
	case ivalue.NullValueKind:
		return ast.NullTypeKind
	case ivalue.IntValueKind:
		return ast.IntTypeKind
	case ivalue.FloatValueKind:
		return ast.FloatTypeKind
	case ivalue.BoolValueKind:
		return ast.BoolTypeKind
	case ivalue.StringValueKind:
		return ast.StringTypeKind
	case ivalue.AnyObjectValueKind:
		return ast.AnyObjectTypeKind
	case ivalue.ObjectValueKind:
		return ast.ObjectTypeKind
	case ivalue.OptionValueKind:
		return ast.OptionTypeKind
	case ivalue.ListValueKind:
		return ast.ListTypeKind
	case ivalue.RangeValueKind:
		return ast.RangeTypeKind
	}
	return ast.FnTypeKind
}

func verifKindConforms(k ast.TypeKind, t ast.Type) bool {
	switch t.Kind() {
	case ast.AnyTypeKind, ast.UnknownTypeKind:
		return true
	}
	return k == t.Kind()
}

func VerifHarness_Members() {
	kind := verifMemberKinds[herrors.VerifNdIntRange("kind", 0, len(verifMemberKinds)-1)]
	subj := verifSubjectOf(kind)
	fields := subj.typ.Fields(herrors.Span{})
	var names []string
	for name := range fields {
		names = append(names, name)
	}
	sort.Strings(names)
	if len(names) == 0 {
		herrors.VerifReached("no-members")
		return
	}
	name := names[herrors.VerifNdIntRange("member", 0, len(names)-1)]
	herrors.VerifTag("member", kind+"."+name)
	ft := fields[name]

	vmFields, vi := subj.vm.Fields()
	trFields, ti := subj.tr.Fields()
	if vi != nil || ti != nil {
		herrors.VerifAssert("fields-no-interrupt", false)
		return
	}
	vmMember, vmHas := vmFields[name]
	trMember, trHas := trFields[name]
	herrors.VerifAssert("vm-has-member", vmHas)
	herrors.VerifAssert("tree-has-member", trHas)
	herrors.VerifReached("looked-up")
	if ft.Kind() != ast.FnTypeKind {
		if vmHas {
			herrors.VerifAssert("vm-field-kind", verifKindConforms((*vmMember).Kind().TypeKind(), ft))
		}
		if trHas {
			herrors.VerifAssert("tree-field-kind", verifKindConforms(verifTreeTypeKind((*trMember).Kind()), ft))
		}
		return
	}
	fn := ft.(ast.FunctionType)
	if fn.Params.Kind() != ast.NormalFunctionTypeParamKindIdentifierKind {
		herrors.VerifReached("varargs-skipped")
		return
	}
	params := fn.Params.(ast.NormalFunctionTypeParamKindIdentifier).Params
	var vargs []vvalue.Value
	var targs []ivalue.Value
	for idx, p := range params {
		pt := p.Type
		if pt.Kind() == ast.AnyTypeKind || pt.Kind() == ast.UnknownTypeKind {
			pt = ast.NewIntType(herrors.Span{})
		}
		av, at, ok := verifArgFor(pt, idx)
		if !ok {
			herrors.VerifReached("arg-type-skipped")
			return
		}
		vargs = append(vargs, av)
		targs = append(targs, at)
	}
	var cctx context.Context = newVerifCtx()
	out := ""
	// outcome of the call in each library, for the comparison at the end: "" = not called
	vmOutcome, trOutcome := "", ""
	if vmHas && (*vmMember).Kind() == vvalue.BuiltinFunctionValueKind {
		var res *vvalue.Value
		var intr *vvalue.VmInterrupt
		exec := verifVmExec{out: &out, triggers: &[]string{}}
		p, msg := herrors.VerifPanics(func() {
			res, intr = (*vmMember).(vvalue.ValueBuiltinFunction).Callback(vvalue.Executor(exec), &cctx, herrors.Span{}, vargs...)
		})
		if p {
			herrors.VerifTag("panic", herrors.VerifNorm(msg))
		}
		herrors.VerifAssert("vm-member-no-panic", !p)
		herrors.VerifUntag("panic")
		if !p && intr != nil {
			vmOutcome = "interrupt"
		}
		if !p && intr == nil {
			vmOutcome = "value:"
			if res != nil && *res != nil {
				if d, di := (*res).Display(); di == nil {
					vmOutcome += d
				}
			}
			if d, di := subj.vm.Display(); di == nil {
				vmOutcome += " subject:" + d
			}
			herrors.VerifReached("vm-called")
			if fn.ReturnType.Kind() == ast.NullTypeKind {
				herrors.VerifAssert("vm-member-returns-advertised-type", res == nil || (*res).Kind() == vvalue.NullValueKind)
			} else {
				herrors.VerifAssert("vm-member-returns-a-value", res != nil && *res != nil)
				if res != nil && *res != nil {
					herrors.VerifAssert("vm-member-returns-advertised-type", verifKindConforms((*res).Kind().TypeKind(), fn.ReturnType))
				}
			}
		}
	}
	if trHas && (*trMember).Kind() == ivalue.BuiltinFunctionValueKind {
		var res *ivalue.Value
		var intr *ivalue.Interrupt
		exec := verifTreeExec{out: &out}
		p, msg := herrors.VerifPanics(func() {
			res, intr = (*trMember).(ivalue.ValueBuiltinFunction).Callback(ivalue.Executor(exec), &cctx, herrors.Span{}, targs...)
		})
		if p {
			herrors.VerifTag("panic", herrors.VerifNorm(msg))
		}
		herrors.VerifAssert("tree-member-no-panic", !p)
		herrors.VerifUntag("panic")
		if !p && intr != nil {
			trOutcome = "interrupt"
		}
		if !p && intr == nil {
			trOutcome = "value:"
			if res != nil && *res != nil {
				if d, di := (*res).Display(); di == nil {
					trOutcome += d
				}
			}
			if d, di := subj.tr.Display(); di == nil {
				trOutcome += " subject:" + d
			}
			herrors.VerifReached("tree-called")
			if fn.ReturnType.Kind() == ast.NullTypeKind {
				herrors.VerifAssert("tree-member-returns-advertised-type", res == nil || (*res).Kind() == ivalue.NullValueKind)
			} else {
				herrors.VerifAssert("tree-member-returns-a-value", res != nil && *res != nil)
				if res != nil && *res != nil {
					herrors.VerifAssert("tree-member-returns-advertised-type", verifKindConforms(verifTreeTypeKind((*res).Kind()), fn.ReturnType))
				}
			}
		}
	}
	// both value libraries implement one language: the same member called with the same arguments gives the same
	// result (rendered text), fails in both or in neither, and leaves the subject in the same state
	if vmOutcome != "" && trOutcome != "" && herrors.VerifParam("agree", 0) == 1 {
		herrors.VerifTag("outcomes", herrors.VerifNorm(vmOutcome)+" vs "+herrors.VerifNorm(trOutcome))
		herrors.VerifAssert("both-libraries-agree-on-result-and-subject", vmOutcome == trOutcome)
		herrors.VerifUntag("outcomes")
	}
}

// ---- index laws ----

// VerifHarness_IndexLaw: list of n symbolic elements, unconstrained index i.
// op 0: l[i]  1: l.remove(i)  2: l.insert(i, e)  (VM value library and tree value library)
func VerifHarness_IndexLaw() {
	n := herrors.VerifNdIntRange("n", 0, herrors.VerifParam("N", 3))
	op := herrors.VerifNdIntRange("op", 0, 2)
	lib := herrors.VerifNdIntRange("lib", 0, 1)
	herrors.VerifTag("op", []string{"index", "remove", "insert"}[op])
	herrors.VerifTag("lib", []string{"vm", "tree"}[lib])
	i := herrors.VerifNdInt64("i")
	e := herrors.VerifNdInt64("e")
	elems := make([]int64, n)
	for k := range elems {
		elems[k] = herrors.VerifNdInt64(fmt.Sprintf("e%d", k))
	}
	// reference
	N := int64(n)
	valid := false
	pos := int64(0)
	switch op {
	case 0, 1:
		valid = herrors.VerifAnd(i >= -N, i < N)
	case 2:
		valid = herrors.VerifAnd(i >= -N, i <= N)
	}
	if i < 0 {
		pos = i + N
	} else {
		pos = i
	}
	var want []int64
	if valid {
		switch op {
		case 1:
			for k := int64(0); k < N; k++ {
				if k != pos {
					want = append(want, elems[k])
				}
			}
		case 2:
			for k := int64(0); k <= N; k++ {
				if k == pos {
					want = append(want, e)
				}
				if k < N {
					want = append(want, elems[k])
				}
			}
		}
	}
	var cctx context.Context = newVerifCtx()
	sp := func() herrors.Span { return herrors.Span{} }
	var got []int64
	gotOne := int64(0)
	failed := false
	if lib == 0 {
		var vs []*vvalue.Value
		for _, x := range elems {
			vs = append(vs, vvalue.NewValueInt(x))
		}
		list := vvalue.NewValueList(vs)
		p, msg := herrors.VerifPanics(func() {
			switch op {
			case 0:
				r, intr := vvalue.IndexValue(list, vvalue.NewValueInt(i), sp)
				if intr != nil {
					failed = true
				} else {
					gotOne = (*r).(vvalue.ValueInt).Inner
				}
			default:
				f, _ := (*list).Fields()
				name := "remove"
				args := []vvalue.Value{*vvalue.NewValueInt(i)}
				if op == 2 {
					name = "insert"
					args = append(args, *vvalue.NewValueInt(e))
				}
				_, intr := (*f[name]).(vvalue.ValueBuiltinFunction).Callback(nil, &cctx, herrors.Span{}, args...)
				if intr != nil {
					failed = true
				}
				for _, x := range *(*list).(vvalue.ValueList).Values {
					got = append(got, (*x).(vvalue.ValueInt).Inner)
				}
			}
		})
		if p {
			herrors.VerifTag("panic", herrors.VerifNorm(msg))
		}
		herrors.VerifAssert("no-panic", !p)
		if p {
			return
		}
	} else {
		var vs []*ivalue.Value
		for _, x := range elems {
			vs = append(vs, ivalue.NewValueInt(x))
		}
		list := ivalue.NewValueList(vs)
		p, msg := herrors.VerifPanics(func() {
			switch op {
			case 0:
				r, intr := ivalue.IndexValue(list, ivalue.NewValueInt(i), sp)
				if intr != nil {
					failed = true
				} else {
					gotOne = (*r).(ivalue.ValueInt).Inner
				}
			default:
				f, _ := (*list).Fields()
				name := "remove"
				args := []ivalue.Value{*ivalue.NewValueInt(i)}
				if op == 2 {
					name = "insert"
					args = append(args, *ivalue.NewValueInt(e))
				}
				_, intr := (*f[name]).(ivalue.ValueBuiltinFunction).Callback(nil, &cctx, herrors.Span{}, args...)
				if intr != nil {
					failed = true
				}
				for _, x := range *(*list).(ivalue.ValueList).Values {
					got = append(got, (*x).(ivalue.ValueInt).Inner)
				}
			}
		})
		if p {
			herrors.VerifTag("panic", herrors.VerifNorm(msg))
		}
		herrors.VerifAssert("no-panic", !p)
		if p {
			return
		}
	}
	herrors.VerifReached("returned")
	herrors.VerifAssert("out-of-range-is-interrupt", failed == !valid)
	if !valid || failed {
		return
	}
	if op == 0 {
		herrors.VerifAssert("element-at-wrapped-index", gotOne == elems[pos])
		return
	}
	herrors.VerifAssert("result-length", len(got) == len(want))
	if len(got) == len(want) {
		for k := range want {
			herrors.VerifAssert("result-elements", got[k] == want[k])
		}
	}
}
