#!/usr/bin/env python3
# Generates MANIFEST.json from the table below (kept in one place so that it stays valid).
import json
claimed = {
 "C06": dict(level="other", text="Bounded symbolic execution of the real lexer (go/ssa interpreted with SMT terms for every rune and location field) against a reference lexer written from grammar.ebnf; holds for every text within the stated window bound, decided by z3, counterexamples replayed natively before being reported.",
             note="Bounds: step harness window K runes (quick 4 / thorough 6), prefixed step K (3/5) behind 23 fixed openers, whole-stream cross-check K (2/3). Trusted: go/ssa, the gosym interpreter, z3 4.8.12, the reference lexer (harness/homescript/lexer/zz_verif_ref.go). Lexemes longer than the window are covered only through the one-step induction; float value decoding is not checked.",
             technique="bounded symbolic execution (go/ssa) + SMT (z3), differential vs reference lexer", design="§2 C06"),
 "C05": dict(level="other", text="Bounded symbolic execution of lexer (and parser/analyzer as they are added) with Go run-time panics and step-bound overruns as path outcomes; within the stated bounds no input makes the code panic or fail to make progress.",
             note="Currently: lexer step totality/progress on windows of K runes (quick 3 / thorough 5). Trusted: go/ssa, gosym, z3.",
             technique="bounded symbolic execution (go/ssa) + SMT (z3), panic/bound outcomes", design="§2 C05"),
}
na = {}
all_ids = ["C%02d" % i for i in range(1, 21)]
for i in all_ids:
    if i not in claimed:
        na[i] = "check not built yet in this session (engine layer or harness pending); see DESIGN.md §5"
checks = []
for pid, c in claimed.items():
    checks.append({
        "property_id": pid,
        "quick_cmd": f"/verif/bin/vcheck run -p {pid} -tier quick",
        "thorough_cmd": f"/verif/bin/vcheck run -p {pid} -tier thorough",
        "evidence_file": f"/verif/evidence/{pid}.json",
        "replay_cmd_template": "/verif/bin/vcheck replay {path}",
        "engine": "gosym",
        "level_claimed": {"category": c["level"], "text": c["text"], "design_ref": c["design"]},
        "level_note": c["note"],
        "technique": c["technique"],
    })
m = {
 "version": 1,
 "setup_cmd": "cd /verif/engine && GOFLAGS=-mod=mod GOPROXY=off GOSUMDB=off GOTOOLCHAIN=local go build -o /verif/bin/vcheck ./cmd/vcheck",
 "hooks": {"guard": "verif", "enable": "no source hooks: harnesses enter through go/packages overlays and `go test -overlay` (build tag verif is passed but guards nothing in /repo)",
           "baseline_off_cmd": "cd /repo && go build ./... && go test -vet=off -count=1 -timeout 25m ./...", "source_commits": [], "add_only": True},
 "engines": [{"name": "gosym", "path": "/verif/engine", "serves_properties": sorted(claimed), "kind_free_text": "purpose-built bounded symbolic executor for go/ssa (x/tools v0.29.0) with z3 -in sessions; encoding regenerated from /repo's working tree on every run"}],
 "checks": checks,
 "not_applicable": [{"property_id": k, "reason": v} for k, v in sorted(na.items())],
 "notes": "Exit codes: 0 held within bounds (KNOWN-FINDING lines possible), 1 VIOLATION (natively replayed counterexample), 2 check error (load failure, vacuous harness, engine error).",
}
json.dump(m, open("/verif/MANIFEST.json", "w"), indent=1)
print("claimed", sorted(claimed), "n/a", len(na))
