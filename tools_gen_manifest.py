#!/usr/bin/env python3
# Generates MANIFEST.json from the table below (kept in one place so that it stays valid).
import json
claimed = {
 "C06": dict(level="other", text="Bounded symbolic execution of the real lexer (go/ssa interpreted with SMT terms for every rune and location field) against a reference lexer written from grammar.ebnf; holds for every text within the stated window bound, decided by z3, counterexamples replayed natively before being reported.",
             note="Bounds: step harness window K runes (quick 4 / thorough 6), prefixed step K (3/5) behind 23 fixed openers, whole-stream cross-check K (2/3). Trusted: go/ssa, the gosym interpreter, z3 4.8.12, the reference lexer (harness/homescript/lexer/zz_verif_ref.go). Lexemes longer than the window are covered only through the one-step induction; float value decoding is not checked.",
             technique="bounded symbolic execution (go/ssa) + SMT (z3), differential vs reference lexer", design="§2 C06"),
 "C01": dict(level="other", text="Bounded symbolic execution of the whole pipeline (real lexer, parser, analyzer, compiler, VM with its goroutine/channel hand-off) on program families whose operand values are unconstrained solver variables; VM output and outcome are compared as SMT terms with a definitional reference (operator table B.3 and a reference interpreter over the parsed tree).",
             note="Families: 19 infix operators x 4 types; 28 catalogue programs; nesting family depth 1 (quick) / 2 (thorough). Program structure is covered only by these families (selectors exhaustively), not all programs. `**` and float text formatting are outside (uninterpreted). Trusted: go/ssa, gosym, z3, the reference interpreter (harness/homescript/zz_verif_refinterp.go).",
             technique="bounded symbolic execution of the real pipeline (go/ssa) + SMT (z3) vs definitional reference", design="§2 C01"),
 "C02": dict(level="other", text="Bounded symbolic execution of compile+run on both back ends with every Go run-time failure and step-bound overrun as a path outcome; operand values are solver variables, so the solver produces the zero divisors, negative shifts and out-of-range indices.",
             note="Families as C01 (operators, 28 catalogue programs, nesting depth 2 quick / 3 thorough), limits fixed (100/500/256). Deadlock is an engine outcome of the cooperative goroutine model (scheduling only at blocking operations). Trusted: go/ssa, gosym, z3.",
             technique="bounded symbolic execution (go/ssa) + SMT (z3), panic/deadlock/bound outcomes", design="§2 C02"),
 "C04": dict(level="translation_validation", text="The same analysed program runs on the VM and on the tree-walking interpreter inside one symbolic path; outputs (strings with symbolic number pieces) and outcome classes are compared as SMT terms; disagreements are replayed natively.",
             note="Families as C01 restricted to the shared fragment (no trigger/spawn/-> ~>). Fatal kinds compared by class; stack-trace text ignored. Trusted: go/ssa, gosym, z3.",
             technique="differential bounded symbolic execution (VM vs tree interpreter) + SMT (z3)", design="§2 C04"),
 "C11": dict(level="other", text="Bounded symbolic execution of a generated nesting family (every nesting of 11 construct kinds around 5 exit kinds up to depth D, exit condition and failing index symbolic) through compiler+VM and through the tree interpreter, compared with a definitional reference interpreter; host crashes count as violations.",
             note="D = 2 quick / 3 thorough; throws cross at most the generated call slots; caught error object: message only. Trusted: go/ssa, gosym, z3, reference interpreter.",
             technique="bounded symbolic execution (go/ssa) + SMT (z3) vs definitional reference interpreter", design="§2 C11"),
 "C18": dict(level="other", text="Bounded symbolic execution of the analyzer's member tables against both runtime value libraries: exhaustive over (type kind, member), argument payloads and indices are unconstrained solver variables; the index law is asserted on SMT terms.",
             note="Subject values: int, float, bool, str (4 concrete strings), range, [int] of 0..2, {?}, {a:int}, ?int. String arguments from {\"\", \"a\", \",\"}; function-typed and var-arg parameters skipped; `repeat` counts above 16 and JSON text are outside (JSON modelled by contract). Trusted: go/ssa, gosym, z3.",
             technique="bounded symbolic execution (go/ssa) + SMT (z3) over member tables and index law", design="§2 C18"),
 "C12": dict(level="other", text="Bounded symbolic execution of the real DeepCast (both value libraries), of cast-bearing program templates on both back ends and of the VM host boundary, against the conformance reference B.4; value/type shapes come from selectors, scalar payloads are unconstrained solver variables.",
             note="Value/type trees of depth 1 exhaustively (quick) and depth 2 within a path budget (thorough, reported as not exhaustive when the budget ends first); object keys from {a,b}; strings/ranges/any-objects have fixed payloads; JSON text is modelled by contract; function-typed values only as 'never admitted'. Trusted: go/ssa, gosym, z3, reference cvAdmit (harness/homescript/zz_verif_cast.go).",
             technique="bounded symbolic execution (go/ssa) + SMT (z3) vs conformance reference", design="§2 C12"),
 "C13": dict(level="other", text="Bounded symbolic execution of IsEqual/Clone/Display of both value libraries and of the to_json/parse_json/cast chain; laws are asserted as SMT formulas over values of one static type whose payloads, lengths and key sets are solver variables.",
             note="Type shapes depth 1 (quick) / 2 within a budget (thorough); lists <= 2 elements, keys from {a,b}; strings from 2 constants (unicode strings are outside), floats assumed non-NaN (and finite for JSON); JSON text is modelled by the round-trip contract of encoding/json (numbers come back as float64); object display order is C14's subject. Trusted: go/ssa, gosym, z3 (+ one-shot z3/cvc5 portfolio for FP conversion queries), reference cvSameContent.",
             technique="bounded symbolic execution (go/ssa) + SMT (z3/cvc5) of algebraic laws", design="§2 C13"),
 "C07": dict(level="other", text="Bounded symbolic execution of the real Pratt parser with operator token kinds as solver variables (stub lexer), bracket structure compared with a reference splitter written from the operator table of the property statement; prefix/postfix/as/layout variants through the real lexer, exhaustive over selectors.",
             note="Operator sequences of 2 (quick) / 3 (thorough) binary operators over all 31 infix+assignment tokens; one prefix and one postfix per operand; `..` and statement-level layout outside; assignments with a non-place left-hand side may be rejected (accepted behaviour). Trusted: go/ssa, gosym, z3, reference splitter verifRefShape.",
             technique="bounded symbolic execution (go/ssa) + SMT (z3) vs reference precedence splitter", design="§2 C07"),
 "C03": dict(level="other", text="Bounded symbolic execution of the real parser+analyzer over rule templates with selectors for type kinds, arities, operators and syntactic positions (explored exhaustively), plus Analyzer.TypeCheck against a reference relation on type trees.",
             note="One fault per program; 17 rule templates, 9 type kinds, 7 positions; impl/template/trigger-callback rules and interactions of two faults are outside; operator admissibility is asserted only where the language definition is unambiguous (float % and float ** are not asserted). Selectors are concrete forks, so the solver's role here is limited to the engine's path bookkeeping. Trusted: go/ssa, gosym, the rule table in harness/homescript/zz_verif_rules.go.",
             technique="bounded symbolic execution (go/ssa), exhaustive over template selectors", design="§2 C03"),
 "C09": dict(level="other", text="Bounded symbolic execution of the VM run loop and the interpreter's call path with CallStackMaxSize / StackMaxSize / call limit as solver variables and the recursion depth as a symbolic input; MaxMemorySize is case-split because it sizes an allocation.",
             note="Limits 0..16 (quick) / 0..90 (thorough); recursion depth 0..6 / 0..70; widths 0..40 / 0..80; the enforcement clause allows one scheduling quantum (50 instructions) of overshoot and is only non-vacuous in the thorough bounds; the loop-head resource invariant is checked black-box (1 vs 4 iterations), not on core internals. NewVM's documented panic when the init code is interrupted counts as a refusal, not a crash. Trusted: go/ssa, gosym, z3.",
             technique="bounded symbolic execution (go/ssa) + SMT (z3) with symbolic limits", design="§2 C09"),
 "C10": dict(level="other", text="Bounded symbolic execution of Core.Run, VM.Wait/SpawnSync and interpreter.Execute with the cancellation instant as a fork variable over every context poll up to P; goroutines/channels/RWMutex run under the engine's cooperative scheduler; non-polling loops surface as exceeded step bounds and are replayed natively under a wall-clock timeout.",
             note="P = 6 polls quick / 30 thorough; 7 programs; scheduling only at blocking operations (lowest-numbered runnable goroutine first); blocking host builtins (sleep) and wall-clock latency outside. Trusted: go/ssa, gosym (scheduler model), z3.",
             technique="bounded symbolic execution (go/ssa) with symbolic cancellation instant + cooperative scheduler model", design="§2 C10"),
 "C16": dict(level="other", text="Bounded symbolic execution of call histories on one runtime.VM with symbolic argument values, including the VM's goroutines, result channels and core RWMutex under the engine's cooperative scheduler; blocking forever is the deadlock outcome.",
             note="Histories of 2 (quick) / 4 (thorough) calls over 5 target functions; default scheduling order only (lowest-numbered runnable goroutine at each blocking operation); concurrent host calls on one VM and debugger channels outside; returned core's internal stack is not inspected (black-box residue check through later calls and the registered-core list). Trusted: go/ssa, gosym scheduler and lock model, z3.",
             technique="bounded symbolic execution (go/ssa) of call histories + SMT (z3), cooperative scheduler model", design="§2 C16"),
 "C17": dict(level="other", text="Bounded schedule exploration of the VM's spawn/Wait machinery inside the engine (scheduling decisions at blocking operations are fork variables, at most 2 deviations from the default order) with symbolic spawn arguments, plus a happens-before (vector clock) monitor on every Go map shared between goroutines; a reported race is replayed natively under the race detector.",
             note="1..2 spawned cores; preemption between synchronisation points is NOT explored (only the happens-before argument speaks to it); the monitor covers Go maps (VM globals, program tables), not slices or struct fields; GOMAXPROCS effects and races inside host code outside. Trusted: go/ssa, gosym scheduler/HB model.",
             technique="bounded schedule exploration in the symbolic executor + vector-clock happens-before monitor", design="§2 C17"),
 "C14": dict(level="other", text="Bounded symbolic execution of analyse+compile+run on both back ends in map-order nondeterminism mode: the order of every range over a Go map in the repository's packages is a fork variable; the observable result must be identical on every explored path and for a second run in the same path.",
             note="6 programs; at most 1 deviating map range per path (all orders of that range); diagnostics compared as a sorted multiset; goroutine timing of single-core programs is explored only in the default schedule; hash-seed effects other than iteration order outside. A nondeterminism counterexample is confirmed natively by repeating the run (up to 200 times) until two different results appear. Trusted: go/ssa, gosym.",
             technique="bounded symbolic execution (go/ssa) with map-iteration order as fork variable", design="§2 C14"),
 "C15": dict(level="other", text="Bounded symbolic execution of the whole pipeline on a module-graph family with selectors for visibility, imports, missing items/modules and cycles, in map-order mode (module visiting orders are fork variables); diagnostics and outputs are compared with what the linking rules prescribe.",
             note="3 modules, one function/global/type each plus private same-named items; import templates/triggers and host builtin modules outside; 1 deviating map order per path. Trusted: go/ssa, gosym.",
             technique="bounded symbolic execution (go/ssa), exhaustive over module-graph selectors and single map-order deviations", design="§2 C15"),
 "C19": dict(level="translation_validation", text="print -> re-lex -> re-parse -> re-analyse -> run inside one symbolic path for both printers on a 52-program corpus with unconstrained host inputs, a string literal with solver-variable content, and Optimize(p) vs p on the VM; outputs/outcomes compared as SMT terms.",
             note="Corpus programs (not all programs); string literal content <= 2 (quick) / 3 (thorough) ASCII runes; numeric literal text, comments, impl blocks / annotations / imports in printed form are outside; optimiser differential on the corpus plus the nesting family depth 1 / 2. Trusted: go/ssa, gosym, z3.",
             technique="differential bounded symbolic execution (print/re-parse and optimiser in/out) + SMT (z3)", design="§2 C19"),
 "C20": dict(level="translation_validation", text="The fuzzer's Transformer is executed symbolically with math/rand replaced by fork variables (bounded number of non-default draws), the variant is printed, re-analysed and run on the VM next to the original in the same path with unconstrained host inputs; output equality is decided by the solver. Counterexamples are replayed natively with a scripted rand.Source.",
             note="10 programs in the stated class; 1 pass with <= 1 non-default draw per path (quick), 2 passes within a path budget (thorough); multiplication right operands assumed 0..3; the literal rewrites use the programs' small literals (the symbolic-literal tree-level check of DESIGN §2 C20(ii) is not built); float (v*u)/u identities are only exercised on constants. Trusted: go/ssa, gosym (rand model), z3.",
             technique="differential bounded symbolic execution with random draws as fork variables + SMT (z3)", design="§2 C20"),
 "C05": dict(level="other", text="Bounded symbolic execution of lexer (and parser/analyzer as they are added) with Go run-time panics and step-bound overruns as path outcomes; within the stated bounds no input makes the code panic or fail to make progress.",
             note="Lexer step totality/progress on windows of K runes (quick 3 / thorough 5); Parser.Parse over every sequence of <= L tokens with symbolic kinds and an optional (sticky or consumed) lexer error, L = 3 quick / 5 thorough, step bound 300k as termination obligation (token kind formatting stubbed). Analyzer totality on edited programs: see evidence. 64 KiB / depth-1000 inputs are not executed (outside). Trusted: go/ssa, gosym, z3.",
             technique="bounded symbolic execution (go/ssa) + SMT (z3), panic/bound outcomes", design="§2 C05"),
}
na = {}
all_ids = ["C%02d" % i for i in range(1, 21)]
for i in all_ids:
    if i not in claimed:
        na[i] = "check not built yet in this session (engine layer or harness pending); see DESIGN.md §5"
checks = []
for pid, c in claimed.items():
    checks.append({
        "property_id": pid,
        "quick_cmd": f"/verif/bin/vcheck run -p {pid} -tier quick",
        "thorough_cmd": f"/verif/bin/vcheck run -p {pid} -tier thorough",
        "evidence_file": f"/verif/evidence/{pid}.json",
        "replay_cmd_template": "/verif/bin/vcheck replay {path}",
        "engine": "gosym",
        "level_claimed": {"category": c["level"], "text": c["text"], "design_ref": c["design"]},
        "level_note": c["note"],
        "technique": c["technique"],
    })
m = {
 "version": 1,
 "setup_cmd": "cd /verif/engine && GOFLAGS=-mod=mod GOPROXY=off GOSUMDB=off GOTOOLCHAIN=local go build -o /verif/bin/vcheck ./cmd/vcheck",
 "hooks": {"guard": "verif", "enable": "no source hooks: harnesses enter through go/packages overlays and `go test -overlay` (build tag verif is passed but guards nothing in /repo)",
           "baseline_off_cmd": "cd /repo && go build ./... && go test -vet=off -count=1 -timeout 25m ./...", "source_commits": [], "add_only": True},
 "engines": [{"name": "gosym", "path": "/verif/engine", "serves_properties": sorted(claimed), "kind_free_text": "purpose-built bounded symbolic executor for go/ssa (x/tools v0.29.0) with z3 -in sessions; encoding regenerated from /repo's working tree on every run"}],
 "checks": checks,
 "not_applicable": [{"property_id": k, "reason": v} for k, v in sorted(na.items())],
 "notes": "Exit codes: 0 held within bounds (KNOWN-FINDING lines possible), 1 VIOLATION (natively replayed counterexample), 2 check error (load failure, vacuous harness, engine error).",
}
json.dump(m, open("/verif/MANIFEST.json", "w"), indent=1)
print("claimed", sorted(claimed), "n/a", len(na))
